package lnwallet

import (
	"bytes"
	"crypto/sha256"
	"testing"

	"github.com/btcsuite/btcd/btcutil/v2"
	"github.com/lightningnetwork/lnd/channeldb"
	"github.com/lightningnetwork/lnd/lnwallet/chainfee"
	"github.com/lightningnetwork/lnd/lnwire"
	"github.com/stretchr/testify/require"
)

// TestF16DemoRestoreLocalUpdatesOrder lets Alice (the channel initiator) send
// two fee updates, restarts her while the first is locked in on Bob's
// commitment but not yet signed back by Bob (it lives under
// remoteUnsignedLocalUpdatesKey) and the second is part of her dangling,
// un-revoked commit_sig (it lives in the CommitDiff). Bob then acks the second
// commitment and signs a commitment for Alice that carries the NEWER fee rate.
//
// Before the fix restoreStateLogs put the newer update in front of the older
// one in Alice's local update log, evaluateHTLCView took the last fee update
// in list order (the older rate), and Alice rejected Bob's valid signature.
func TestF16DemoRestoreLocalUpdatesOrder(t *testing.T) {
	aliceChannel, bobChannel, err := CreateTestChannels(
		t, channeldb.SingleFunderTweaklessBit,
	)
	require.NoError(t, err)

	// Warm up with one full state transition so that both sides have
	// revoked at least once.
	preimage := bytes.Repeat([]byte{1}, 32)
	htlc := &lnwire.UpdateAddHTLC{
		PaymentHash: sha256.Sum256(preimage),
		Amount:      lnwire.NewMSatFromSatoshis(btcutil.SatoshiPerBitcoin),
		Expiry:      5,
	}
	addAndReceiveHTLC(t, aliceChannel, bobChannel, htlc, nil)
	require.NoError(t, ForceStateTransition(aliceChannel, bobChannel))

	const (
		fee1 = chainfee.SatPerKWeight(1111)
		fee2 = chainfee.SatPerKWeight(2222)
	)

	// update_fee(fee1), commit_sig -->, <-- revoke_and_ack. Bob does not
	// sign yet.
	require.NoError(t, aliceChannel.UpdateFee(fee1))
	require.NoError(t, bobChannel.ReceiveUpdateFee(fee1))

	aliceSig1, err := aliceChannel.SignNextCommitment(ctxb)
	require.NoError(t, err)
	require.NoError(t, bobChannel.ReceiveNewCommitment(aliceSig1.CommitSigs))
	bobRev1, _, _, err := bobChannel.RevokeCurrentCommitment()
	require.NoError(t, err)
	_, _, err = aliceChannel.ReceiveRevocation(bobRev1)
	require.NoError(t, err)

	// update_fee(fee2), commit_sig -->. Bob's revocation is outstanding.
	require.NoError(t, aliceChannel.UpdateFee(fee2))
	require.NoError(t, bobChannel.ReceiveUpdateFee(fee2))

	aliceSig2, err := aliceChannel.SignNextCommitment(ctxb)
	require.NoError(t, err)

	// Alice restarts.
	aliceChannel, err = restartChannel(aliceChannel)
	require.NoError(t, err)

	// The restored local update log must be ordered by log index.
	var (
		restoredFees []chainfee.SatPerKWeight
		logIndexes   []uint64
	)
	for e := aliceChannel.updateLogs.Local.Front(); e != nil; e = e.Next() {
		if e.Value.EntryType != FeeUpdate {
			continue
		}
		restoredFees = append(restoredFees, chainfee.SatPerKWeight(
			e.Value.Amount.ToSatoshis(),
		))
		logIndexes = append(logIndexes, e.Value.LogIndex)
	}
	t.Logf("alice's restored fee updates: rates=%v logIndexes=%v",
		restoredFees, logIndexes)

	// Bob processes the second commit_sig and revokes; Alice processes the
	// revocation, which acks fee2.
	require.NoError(t, bobChannel.ReceiveNewCommitment(aliceSig2.CommitSigs))
	bobRev2, _, _, err := bobChannel.RevokeCurrentCommitment()
	require.NoError(t, err)
	_, _, err = aliceChannel.ReceiveRevocation(bobRev2)
	require.NoError(t, err)

	// Bob signs Alice's next commitment; it covers fee1 and fee2, so it is
	// built with fee2.
	bobSig, err := bobChannel.SignNextCommitment(ctxb)
	require.NoError(t, err)

	err = aliceChannel.ReceiveNewCommitment(bobSig.CommitSigs)
	if err != nil {
		t.Fatalf("restarted alice rejects bob's valid commit_sig "+
			"(built at %d sat/kw; her restored fee updates in "+
			"list order are %v with log indexes %v): %v",
			fee2, restoredFees, logIndexes, err)
	}

	_, _, _, err = aliceChannel.RevokeCurrentCommitment()
	require.NoError(t, err)
	require.EqualValues(
		t, fee2, aliceChannel.channelState.LocalCommitment.FeePerKw,
	)
}
