package htlcswitch

import (
	"encoding/binary"
	"testing"

	sphinx "github.com/lightningnetwork/lightning-onion"
	"github.com/lightningnetwork/lnd/channeldb"
	"github.com/lightningnetwork/lnd/htlcswitch/hop"
	"github.com/lightningnetwork/lnd/lnwire"
	"github.com/stretchr/testify/require"
)

// TestF17DemoReplayAddsUnderPackageIndex replays, as the link does after a
// restart, a forwarding package that was already processed
// (FwdStateProcessed) and in which the FIRST Add is acked while the SECOND Add
// is still open: it was forwarded to the switch (its bit is set in the forward
// filter) but no settle/fail has come back yet. The link must hand that Add to
// the switch again, under its own package index 1, so that the switch can
// re-open the circuit or fail it back.
//
// Before the fix processRemoteAdds dropped the acked Add from the list and then
// used the position in the filtered list (0) as the package index of the
// remaining Add.
func TestF17DemoReplayAddsUnderPackageIndex(t *testing.T) {
	const (
		chanAmt     = 5_0000_0000
		chanReserve = 5_0000
		pkgHeight   = uint64(7)
	)

	// nextChan is the outgoing channel named in the onions.
	nextChan := lnwire.NewShortChanIDFromInt(0x0102030405060708)

	// mkAdd builds an incoming Add whose (mock) onion tells us to forward
	// to nextChan.
	mkAdd := func(id uint64) *lnwire.UpdateAddHTLC {
		var nextAddr, exitAddr [8]byte
		binary.BigEndian.PutUint64(nextAddr[:], nextChan.ToUint64())

		ourHop := hop.NewLegacyPayload(&sphinx.HopData{
			NextAddress:   nextAddr,
			ForwardAmount: 100_000,
			OutgoingCltv:  700,
		})
		finalHop := hop.NewLegacyPayload(&sphinx.HopData{
			NextAddress:   exitAddr,
			ForwardAmount: 100_000,
			OutgoingCltv:  700,
		})
		blob, err := generateRoute(ourHop, finalHop)
		require.NoError(t, err)

		return &lnwire.UpdateAddHTLC{
			ID:          id,
			Amount:      101_000,
			Expiry:      720,
			PaymentHash: [32]byte{byte(id + 1)},
			OnionBlob:   blob,
		}
	}

	// run replays a processed package with Adds (id 10, id 11) in which
	// the Add at index 0 is acked, and returns what the link handed to the
	// switch.
	run := func(t *testing.T, fwdFilterBits ...uint16) []*htlcPacket {
		harness, err := newSingleLinkTestHarness(
			t, chanAmt, chanReserve,
		)
		require.NoError(t, err)

		// The link is not started: we only drive processRemoteAdds.
		link, ok := harness.aliceLink.(*channelLink)
		require.True(t, ok)

		link.AttachMailBox(
			harness.aliceSwitch.mailOrchestrator.GetOrCreateMailBox(
				link.ChanID(), link.ShortChanID(),
			),
		)

		var forwarded []*htlcPacket
		link.cfg.ForwardPackets = func(_ <-chan struct{}, _ bool,
			pkts ...*htlcPacket) error {

			forwarded = append(forwarded, pkts...)

			return nil
		}

		fwdPkg := channeldb.NewFwdPkg(
			link.ShortChanID(), pkgHeight, []channeldb.LogUpdate{
				{LogIndex: 0, UpdateMsg: mkAdd(10)},
				{LogIndex: 1, UpdateMsg: mkAdd(11)},
			}, nil,
		)
		fwdPkg.State = channeldb.FwdStateProcessed
		for _, bit := range fwdFilterBits {
			fwdPkg.FwdFilter.Set(bit)
		}
		fwdPkg.AckFilter.Set(0)

		link.processRemoteAdds(fwdPkg)

		return forwarded
	}

	// Add 0 was failed back by the link itself (never forwarded) and that
	// fail is committed; Add 1 was forwarded and is still open.
	t.Run("add 0 failed locally, add 1 forwarded", func(t *testing.T) {
		forwarded := run(t, 1)

		if len(forwarded) != 1 {
			t.Fatalf("the open, previously forwarded Add (htlc "+
				"id 11, package index 1) was not handed to "+
				"the switch again: %d packets forwarded",
				len(forwarded))
		}
		pkt := forwarded[0]
		require.EqualValues(t, 11, pkt.incomingHTLCID)
		require.Equal(t, nextChan, pkt.outgoingChanID)
		require.EqualValues(t, pkgHeight, pkt.sourceRef.Height)
		require.EqualValues(t, 1, pkt.sourceRef.Index)
	})

	// Both Adds were forwarded; the response to Add 0 is committed, Add 1
	// is still open.
	t.Run("both forwarded, add 0 resolved", func(t *testing.T) {
		forwarded := run(t, 0, 1)

		require.Len(t, forwarded, 1)
		pkt := forwarded[0]
		require.EqualValues(t, 11, pkt.incomingHTLCID)
		if pkt.sourceRef.Index != 1 {
			t.Fatalf("htlc id 11 is Add #1 of the package at "+
				"height %d, but it was replayed with AddRef"+
				"{Height: %d, Index: %d}: its response will "+
				"ack the wrong Add", pkgHeight,
				pkt.sourceRef.Height, pkt.sourceRef.Index)
		}
	})
}
