package sweep

import (
	"testing"

	"github.com/lightningnetwork/lnd/fn/v2"
	"github.com/lightningnetwork/lnd/lnwallet/chainfee"
	"github.com/stretchr/testify/require"
)

// TestF32SweepStartsBelowRelayFloor: the ceiling of a sweep's fee function is budget / transaction weight. For a small budget it
// can lie below the relay fee floor (P2WKH input, 69 sat budget: 142 sat/kw against a floor of 253 sat/kw). Estimate() checked the
// estimator's answer against the floor and then clamped it to the ceiling - returning a starting rate BELOW the floor, so the sweep
// is first offered at a rate no node relays (site one, repaired). With an immediate deadline (conf target <= 1) the ceiling is used
// without looking at the floor at all (site two, recorded as known finding).
func TestF32SweepStartsBelowRelayFloor(t *testing.T) {
	const (
		relayFloor = chainfee.SatPerKWeight(253)
		ceiling    = chainfee.SatPerKWeight(142)
	)

	t.Run("estimate clamped below the floor", func(t *testing.T) {
		estimator := &chainfee.MockEstimator{}
		estimator.On("EstimateFeePerKW", uint32(6)).Return(chainfee.SatPerKWeight(1000), nil)
		estimator.On("RelayFeePerKW").Return(relayFloor)

		rate, err := FeeEstimateInfo{ConfTarget: 6}.Estimate(estimator, ceiling)
		if err == nil {
			require.GreaterOrEqual(t, rate, relayFloor, "starting fee rate below the relay floor")
		}
	})

	t.Run("immediate deadline", func(t *testing.T) {
		estimator := &chainfee.MockEstimator{}
		estimator.On("RelayFeePerKW").Return(relayFloor).Maybe()

		f, err := NewLinearFeeFunction(ceiling, 1, estimator, fn.None[chainfee.SatPerKWeight]())
		if err == nil {
			require.GreaterOrEqual(t, f.FeeRate(), relayFloor, "starting fee rate below the relay floor")
		}
	})
	// Site three (recorded as known finding): a starting rate supplied by the caller - the rate of our earlier, still unconfirmed sweep
	// found in the mempool after a restart, or the rate inherited from a failed attempt - is used as position 0 of the schedule without
	// looking at the relay floor at all; the floor may have risen since that rate was chosen.
	t.Run("caller-supplied starting rate", func(t *testing.T) {
		estimator := &chainfee.MockEstimator{}
		estimator.On("RelayFeePerKW").Return(relayFloor).Maybe()

		f, err := NewLinearFeeFunction(
			chainfee.SatPerKWeight(10000), 6, estimator, fn.Some(chainfee.SatPerKWeight(100)),
		)
		if err == nil {
			require.GreaterOrEqual(t, f.FeeRate(), relayFloor, "starting fee rate below the relay floor")
		}
	})
}
