package tlv

import (
	"bytes"
	"testing"

	"github.com/stretchr/testify/require"
)

// TestF28BigSizeRecordLengthIgnored: a record decoded with DBigSize did not check the record's declared length against the bytes
// the BigSize value occupies. The stream 01 05 07 | 03 02 00 09 declares five value bytes for record 1 but carries one (07); the
// decoder consumed that one byte and went on parsing "03 02 00 09" as the next record. The stream was accepted as {1: 7, 3: 9}
// although it is not a well-formed TLV stream, and re-encoding the decoded records yields 01 01 07 03 02 00 09 - not the input.
func TestF28BigSizeRecordLengthIgnored(t *testing.T) {
	var (
		a uint64
		b uint16
	)
	stream, err := NewStream(
		MakeBigSizeRecord(1, &a),
		MakePrimitiveRecord(3, &b),
	)
	require.NoError(t, err)

	in := []byte{0x01, 0x05, 0x07, 0x03, 0x02, 0x00, 0x09}
	err = stream.Decode(bytes.NewReader(in))
	if err == nil {
		var out bytes.Buffer
		require.NoError(t, stream.Encode(&out))
		t.Fatalf("accepted a record whose length (5) is not the size of its BigSize value: decoded {1: %d, 3: %d}; "+
			"re-encoding gives %x, input was %x", a, b, out.Bytes(), in)
	}

	// Too short a declared length is refused as well, the exact length is accepted.
	require.Error(t, stream.Decode(bytes.NewReader([]byte{0x01, 0x01, 0xfd, 0x01, 0x00})))
	require.NoError(t, stream.Decode(bytes.NewReader([]byte{0x01, 0x03, 0xfd, 0x01, 0x00, 0x03, 0x02, 0x00, 0x09})))
	require.EqualValues(t, 256, a)
}
