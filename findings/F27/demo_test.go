package lnwire

import (
	"bytes"
	"testing"

	"github.com/stretchr/testify/require"
)

// TestF27UnknownRecordsDroppedOnReencode: a channel_update whose TLV extension carries a record lnd does not know (odd type 1,
// "it's ok to be odd") decodes fine, but re-encoding the decoded message drops the record: Encode rebuilds ExtraOpaqueData from the
// records it knows (EncodeMessageExtraData -> PackRecords overwrites the field). The re-encoding is 4 bytes shorter, the message
// object itself is mutated by Encode, and DataToSign() - which re-encodes - no longer yields the bytes the sender signed, so a
// valid signature over the original bytes cannot verify. The same holds for every message that goes through
// EncodeMessageExtraData (open_channel, accept_channel, channel_ready, channel_reestablish, closing_signed, closing_complete,
// closing_sig, funding_created, funding_signed, gossip_timestamp_filter, query_channel_range, reply_channel_range, revoke_and_ack).
func TestF27UnknownRecordsDroppedOnReencode(t *testing.T) {
	upd := &ChannelUpdate1{
		MessageFlags:    ChanUpdateRequiredMaxHtlc,
		HtlcMaximumMsat: 1000,
		Timestamp:       1,
	}
	var b bytes.Buffer
	require.NoError(t, upd.Encode(&b, 0))

	// The sender appends an unknown odd record (type 1, length 2, value aa bb).
	unknown := []byte{0x01, 0x02, 0xaa, 0xbb}
	wire := append(append([]byte{}, b.Bytes()...), unknown...)

	var dec ChannelUpdate1
	require.NoError(t, dec.Decode(bytes.NewReader(wire), 0))
	require.Equal(t, ExtraOpaqueData(unknown), dec.ExtraOpaqueData, "the unknown record was decoded")

	// What the sender signed: the wire bytes without the 64 signature bytes. On receipt the signature verifies (DataToSign
	// copies the extra data as it is).
	signed := wire[64:]
	toSign, err := dec.DataToSign()
	require.NoError(t, err)
	require.Equal(t, signed, toSign)

	// Relaying the update re-encodes it.
	var re bytes.Buffer
	require.NoError(t, dec.Encode(&re, 0))
	if !bytes.Equal(re.Bytes(), wire) {
		t.Errorf("re-encoding differs from the decoded bytes: %d bytes in, %d bytes out; extra data of the message is now %x",
			len(wire), re.Len(), []byte(dec.ExtraOpaqueData))
	}

	// The next hop decodes what we relayed and checks the sender's signature over it.
	var next ChannelUpdate1
	require.NoError(t, next.Decode(bytes.NewReader(re.Bytes()), 0))
	toSignNext, err := next.DataToSign()
	require.NoError(t, err)
	if !bytes.Equal(toSignNext, signed) {
		t.Errorf("the relayed update no longer carries the bytes the sender signed (%d vs %d bytes): its signature cannot "+
			"verify at the next hop", len(toSignNext), len(signed))
	}
}
