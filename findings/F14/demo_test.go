package lnwire

import (
	"bytes"
	"net"
	"testing"
)

// TestF14DemoNodeAnn2AddrAliasing encodes a list of distinct IPv4 (and IPv6)
// addresses with the node_announcement_2 address encoders and decodes them
// back. Before the fix every decoded TCPAddr kept a slice of one shared
// array, so all decoded addresses were equal to the last one.
func TestF14DemoNodeAnn2AddrAliasing(t *testing.T) {
	t.Run("ipv4", func(t *testing.T) {
		in := IPV4Addrs{
			{IP: net.IPv4(1, 2, 3, 4), Port: 9735},
			{IP: net.IPv4(5, 6, 7, 8), Port: 9736},
			{IP: net.IPv4(9, 10, 11, 12), Port: 9737},
		}

		var (
			buf     bytes.Buffer
			scratch [8]byte
		)
		if err := ipv4AddrsEncoder(&buf, &in, &scratch); err != nil {
			t.Fatalf("encode: %v", err)
		}

		var out IPV4Addrs
		err := ipv4AddrsDecoder(
			&buf, &out, &scratch, uint64(buf.Len()),
		)
		if err != nil {
			t.Fatalf("decode: %v", err)
		}
		if len(out) != len(in) {
			t.Fatalf("decoded %d addrs, want %d", len(out), len(in))
		}
		for i := range in {
			if !out[i].IP.Equal(in[i].IP) ||
				out[i].Port != in[i].Port {

				t.Errorf("ipv4 addr %d: decoded %v, encoded %v",
					i, out[i], in[i])
			}
		}
	})

	t.Run("ipv6", func(t *testing.T) {
		in := IPV6Addrs{
			{IP: net.ParseIP("2001:db8::1"), Port: 9735},
			{IP: net.ParseIP("2001:db8::2"), Port: 9736},
			{IP: net.ParseIP("2001:db8::3"), Port: 9737},
		}

		var (
			buf     bytes.Buffer
			scratch [8]byte
		)
		if err := ipv6AddrsEncoder(&buf, &in, &scratch); err != nil {
			t.Fatalf("encode: %v", err)
		}

		var out IPV6Addrs
		err := ipv6AddrsDecoder(
			&buf, &out, &scratch, uint64(buf.Len()),
		)
		if err != nil {
			t.Fatalf("decode: %v", err)
		}
		if len(out) != len(in) {
			t.Fatalf("decoded %d addrs, want %d", len(out), len(in))
		}
		for i := range in {
			if !out[i].IP.Equal(in[i].IP) ||
				out[i].Port != in[i].Port {

				t.Errorf("ipv6 addr %d: decoded %v, encoded %v",
					i, out[i], in[i])
			}
		}
	})
}
