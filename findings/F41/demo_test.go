package chainntnfs_test

import (
	"testing"

	"github.com/btcsuite/btcd/btcutil/v2"
	"github.com/btcsuite/btcd/wire/v2"
	"github.com/lightningnetwork/lnd/chainntnfs"
	"github.com/stretchr/testify/require"
)

// TestF41BlockStrippedForAnotherClient: client A asks for the confirmation of a transaction WITH the block it is included in
// (WithIncludeBlock). The block that contains the transaction is connected; before the notifier announces that height (ConnectTip and
// NotifyHeight take the lock separately, registrations come from other goroutines) client B registers for the same transaction WITHOUT the
// block. B's registration finds the details cached and dispatches them to EVERY client of the request - stripped of the block, because B
// did not ask for it. A is told 'confirmed' with Block == nil and is marked dispatched, so the announcement of the height skips it: A never
// gets the block details it asked for.
func TestF41BlockStrippedForAnotherClient(t *testing.T) {
	const startingHeight = 10
	hintCache := newMockHintCache()
	n := chainntnfs.NewTxNotifier(startingHeight, 100, hintCache, hintCache)

	tx := wire.NewMsgTx(2)
	tx.AddTxOut(&wire.TxOut{PkScript: testRawScript})
	txHash := tx.TxHash()

	// A: one confirmation, with the block.
	ntfnA, err := n.RegisterConf(&txHash, testRawScript, 1, 1, chainntnfs.WithIncludeBlock())
	require.NoError(t, err)
	// the (empty) historical rescan completes
	require.NoError(t, n.UpdateConfDetails(ntfnA.HistoricalDispatch.ConfRequest, nil))

	block := btcutil.NewBlock(&wire.MsgBlock{Transactions: []*wire.MsgTx{tx}})
	require.NoError(t, n.ConnectTip(block, startingHeight+1))

	// B registers for the same transaction, without the block, before the height is announced.
	_, err = n.RegisterConf(&txHash, testRawScript, 1, 1)
	require.NoError(t, err)

	require.NoError(t, n.NotifyHeight(startingHeight+1))

	select {
	case conf := <-ntfnA.Event.Confirmed:
		require.NotNil(t, conf.Block, "client A asked for the block and was told 'confirmed' without it "+
			"(the details were stripped for client B)")
	default:
		t.Fatal("client A was not notified")
	}
}
