package discovery

import (
	"context"
	"errors"
	"testing"
	"time"

	"github.com/stretchr/testify/require"
)

// TestF20DemoZombieResurrectedByInvalidUpdate marks a channel as a zombie and
// then delivers a fresh channel_update for it that is correctly signed by the
// right node but whose fields are inconsistent (htlc_maximum_msat below
// htlc_minimum_msat). Such an update can never be applied to the graph, so it
// must not resurrect the channel. Before the fix processZombieUpdate only
// checked the signature and removed the channel from the zombie index.
func TestF20DemoZombieResurrectedByInvalidUpdate(t *testing.T) {
	ctx := t.Context()

	tCtx, err := createTestCtx(t, 0, false)
	require.NoError(t, err)

	batch, err := tCtx.createRemoteAnnouncements(0)
	require.NoError(t, err)

	remotePeer := &mockPeer{pk: remoteKeyPriv1.PubKey()}

	// The channel is a zombie that node 2 is allowed to resurrect.
	chanID := batch.chanAnn.ShortChannelID
	err = tCtx.router.MarkEdgeZombie(
		chanID, [33]byte{}, batch.chanAnn.NodeID2,
	)
	require.NoError(t, err)

	// A fresh update from node 2, validly signed, with max_htlc < min_htlc.
	upd := batch.chanUpdAnn2
	upd.Timestamp = uint32(time.Now().Unix())
	upd.HtlcMinimumMsat = 1000
	upd.HtlcMaximumMsat = 10
	require.NoError(t, signUpdate(remoteKeyPriv2, upd))

	resultChan := tCtx.gossiper.ProcessRemoteAnnouncement(
		ctx, upd, remotePeer,
	)

	waitCtx, cancel := context.WithTimeout(ctx, 2*time.Second)
	defer cancel()
	procErr := AwaitGossipResult(waitCtx, resultChan)
	switch {
	case errors.Is(procErr, context.DeadlineExceeded):
		t.Logf("update (min_htlc=%v, max_htlc=%v) was not rejected: "+
			"it is parked, waiting for the channel announcement",
			upd.HtlcMinimumMsat, upd.HtlcMaximumMsat)

	case procErr != nil:
		t.Logf("update rejected: %v", firstLine(procErr.Error()))

	default:
		t.Logf("update processed without error")
	}

	isZombie, err := tCtx.router.IsZombieEdge(chanID)
	require.NoError(t, err)
	if !isZombie {
		t.Errorf("channel %v was removed from the zombie index by a "+
			"channel_update with min_htlc=%v > max_htlc=%v",
			chanID, upd.HtlcMinimumMsat, upd.HtlcMaximumMsat)
	}
	if procErr == nil {
		t.Errorf("the invalid update was not rejected")
	}

	// A consistent fresh update from node 2 still resurrects the channel.
	upd.HtlcMaximumMsat = 2 * upd.HtlcMinimumMsat
	require.NoError(t, signUpdate(remoteKeyPriv2, upd))
	_ = tCtx.gossiper.ProcessRemoteAnnouncement(ctx, upd, remotePeer)
	require.Eventually(t, func() bool {
		isZombie, err := tCtx.router.IsZombieEdge(chanID)
		return err == nil && !isZombie
	}, 2*time.Second, 20*time.Millisecond,
		"a valid update must resurrect the zombie")

	// Finally deliver the channel announcement, which the test context's
	// mock chain expects to be validated.
	err = mustProcess(t, tCtx.gossiper.ProcessRemoteAnnouncement(
		ctx, batch.chanAnn, remotePeer,
	))
	require.NoError(t, err)
}

func firstLine(s string) string {
	for i, c := range s {
		if c == '\n' {
			return s[:i]
		}
	}
	if len(s) > 200 {
		return s[:200] + "..."
	}

	return s
}
