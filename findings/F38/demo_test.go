package invoices_test

import (
	"testing"

	"github.com/lightningnetwork/lnd/channeldb"
	"github.com/lightningnetwork/lnd/clock"
	invpkg "github.com/lightningnetwork/lnd/invoices"
	"github.com/lightningnetwork/lnd/lntypes"
	"github.com/lightningnetwork/lnd/lnwire"
	"github.com/lightningnetwork/lnd/record"
	"github.com/stretchr/testify/require"
)

// TestF38ReplayedKeysendAtLaterHeight: a keysend HTLC (expiry 20 blocks ahead) is settled at height h. The link replays the same HTLC -
// same circuit key - after a restart, when the chain has advanced so far that the HTLC's expiry is inside the registry's final CLTV
// reject delta. A replay has to get the verdict it got originally (settle, with the same preimage: the invoice IS settled and the amount
// is recorded as paid); the keysend pre-check ran before the replay lookup and answered with a failure - the link would fail back an HTLC
// whose invoice says "paid".
func TestF38ReplayedKeysendAtLaterHeight(t *testing.T) {
	makeDB := func(t *testing.T) (invpkg.InvoiceDB, *clock.TestClock) {
		testClock := clock.NewTestClock(testTime)
		db, err := channeldb.MakeTestInvoiceDB(t, channeldb.OptionClock(testClock))
		require.NoError(t, err)

		return db, testClock
	}

	cfg := defaultRegistryConfig()
	cfg.AcceptKeySend = true
	ctx := newTestContext(t, &cfg, makeDB)

	hodlChan := make(chan interface{}, 1)
	amt := lnwire.MilliSatoshi(1000)
	expiry := uint32(testCurrentHeight + 20)

	preimage := lntypes.Preimage{9, 8, 7}
	hash := preimage.Hash()
	payload := &mockPayload{customRecords: map[uint64][]byte{record.KeySendType: preimage[:]}}

	resolution, err := ctx.registry.NotifyExitHopHtlc(
		hash, amt, expiry, testCurrentHeight, getCircuitKey(10), hodlChan, nil, payload,
	)
	require.NoError(t, err)
	checkSettleResolution(t, resolution, preimage)

	// The same HTLC again, 18 blocks later (expiry - height = 2 < reject delta).
	laterHeight := int32(testCurrentHeight + 18)
	resolution, err = ctx.registry.NotifyExitHopHtlc(
		hash, amt, expiry, laterHeight, getCircuitKey(10), hodlChan, nil, payload,
	)
	require.NoError(t, err)
	settle, ok := resolution.(*invpkg.HtlcSettleResolution)
	require.True(t, ok, "the replay of a settled keysend HTLC was answered with %T (%v), originally it was settled", resolution, resolution)
	require.Equal(t, preimage, settle.Preimage)
}
