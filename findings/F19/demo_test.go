package htlcswitch

import (
	"math"
	"testing"

	"github.com/lightningnetwork/lnd/graph/db/models"
	"github.com/lightningnetwork/lnd/lnwire"
)

// TestF19DemoCanSendHtlcExpiryWrap calls canSendHtlc with block heights close
// to the top of the uint32 range. Before the fix heightNow+RejectDelta and
// heightNow+MaxOutgoingCltvExpiry were computed in uint32 and wrapped.
func TestF19DemoCanSendHtlcExpiryWrap(t *testing.T) {
	fetchLastChannelUpdate := func(lnwire.ShortChannelID) (
		*lnwire.ChannelUpdate1, error) {

		return &lnwire.ChannelUpdate1{}, nil
	}
	failAliasUpdate := func(sid lnwire.ShortChannelID,
		incoming bool) *lnwire.ChannelUpdate1 {

		return nil
	}

	testChannel, _, err := createTestChannel(
		t, alicePrivKey, bobPrivKey, 100000, 100000,
		1000, 1000, lnwire.ShortChannelID{},
	)
	if err != nil {
		t.Fatal(err)
	}

	link := channelLink{
		cfg: ChannelLinkConfig{
			FetchLastChannelUpdate:  fetchLastChannelUpdate,
			OutgoingCltvRejectDelta: 10,
			MaxOutgoingCltvExpiry:   DefaultMaxOutgoingCltvExpiry,
			HtlcNotifier:            &mockHTLCNotifier{},
		},
		log:     log,
		channel: testChannel.channel,
	}
	link.attachFailAliasUpdate(failAliasUpdate)

	var (
		hash   [32]byte
		policy models.ForwardingPolicy
		amt    = lnwire.MilliSatoshi(1000)
	)

	// An HTLC whose expiry (block 100) is billions of blocks in the past
	// must be refused as expiring too soon.
	t.Run("expired htlc accepted", func(t *testing.T) {
		heightNow := uint32(math.MaxUint32 - 5)
		timeout := uint32(100)

		res := link.canSendHtlc(
			policy, hash, amt, timeout, heightNow,
			lnwire.ShortChannelID{}, nil,
		)
		if res == nil {
			t.Fatalf("htlc with expiry %d accepted at height %d",
				timeout, heightNow)
		}
		if _, ok := res.WireMessage().(*lnwire.FailExpiryTooSoon); !ok {
			t.Fatalf("expected FailExpiryTooSoon, got %T",
				res.WireMessage())
		}
	})

	// An HTLC expiring 50 blocks ahead is well inside the window
	// (RejectDelta=10, MaxOutgoingCltvExpiry=2016) and must be accepted.
	t.Run("valid htlc refused", func(t *testing.T) {
		heightNow := uint32(math.MaxUint32 - 100)
		timeout := heightNow + 50

		res := link.canSendHtlc(
			policy, hash, amt, timeout, heightNow,
			lnwire.ShortChannelID{}, nil,
		)
		if res != nil {
			t.Fatalf("htlc with expiry %d (height+50) refused at "+
				"height %d: %T", timeout, heightNow,
				res.WireMessage())
		}
	})
}
