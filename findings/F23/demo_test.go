package sweep

import (
	"testing"

	"github.com/btcsuite/btcd/btcutil/v2"
	"github.com/lightningnetwork/lnd/input"
	"github.com/lightningnetwork/lnd/lnwallet/chainfee"
	"github.com/stretchr/testify/require"
)

// TestF23DemoCeilingFeeWithinBudget asks MaxFeeRateAllowed for the ceiling fee
// rate of a 20-input sweep for every budget in (100000, 105000] sat (the configured
// MaxFeeRate is far above, so the budget decides) and checks that the fee paid
// at that ceiling rate fits into the budget. Before the fix the rate was
// budget/weight rounded to the nearest sat/kw, so whenever it rounded up the
// fee at the ceiling was above the budget, and createAndCheckTx refuses such a
// transaction with ErrNotEnoughBudget.
func TestF23DemoCeilingFeeWithinBudget(t *testing.T) {
	// A batched sweep of 20 inputs. The rounding error of the rate is up
	// to half a sat/kw, so it shows once the tx weighs more than 2000 wu.
	var inputs []input.Input
	for i := 0; i < 20; i++ {
		inp := createTestInput(100_000, input.WitnessKeyHash)
		inputs = append(inputs, &inp)
	}

	weight, err := calcSweepTxWeight(
		inputs, [][]byte{changePkScript.DeliveryAddress},
	)
	require.NoError(t, err)

	var bad int
	for budget := btcutil.Amount(100_001); budget <= 105_000; budget++ {
		req := &BumpRequest{
			DeliveryAddress: changePkScript,
			Inputs:          inputs,
			Budget:          budget,
			MaxFeeRate:      chainfee.SatPerKWeight(1_000_000_000),
		}

		rate, err := req.MaxFeeRateAllowed()
		require.NoError(t, err)

		fee := rate.FeeForWeight(weight)
		if fee <= budget {
			continue
		}

		bad++
		if bad <= 5 {
			t.Errorf("budget=%d sat, tx weight=%d wu: ceiling "+
				"rate %d sat/kw costs %d sat, %d sat over "+
				"the budget", int64(budget), weight,
				int64(rate), int64(fee), int64(fee-budget))
		}
	}
	if bad > 0 {
		t.Errorf("%d of 5000 budgets give a ceiling fee above the "+
			"budget", bad)
	}
}
