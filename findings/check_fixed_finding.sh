#!/bin/bash
# usage: check.sh F14 e07264e lnwire TestF14
set -u
export PATH=/root/go/pkg/mod/golang.org/toolchain@v0.0.1-go1.25.13.linux-amd64/bin:$PATH GOTOOLCHAIN=local GOFLAGS=-mod=mod GOPROXY=off GOSUMDB=off GOMAXPROCS=6
F=$1; C=$2; PKG=$3; RE=$4; TAGS=${5:-}
WT=/tmp/wt-fdemo
cd $WT || exit 1
git checkout -q -- . 
cp /tmp/fdemo/$F/demo_test.go $WT/$PKG/demo_test.go
git show $C -- . ':!*zz_verif_contracts.go' | git apply -R || { echo "revert failed"; exit 1; }
echo "=== BEFORE FIX (revert of $C) ==="
go test -vet=off -count=1 -timeout 300s $TAGS -run "$RE" ./$PKG/ > /tmp/fdemo/$F/before.txt 2>&1; echo "exit=$?" >> /tmp/fdemo/$F/before.txt
tail -40 /tmp/fdemo/$F/before.txt
git checkout -q -- .
echo "=== AFTER FIX (HEAD) ==="
go test -vet=off -count=1 -timeout 300s $TAGS -run "$RE" ./$PKG/ > /tmp/fdemo/$F/after.txt 2>&1; echo "exit=$?" >> /tmp/fdemo/$F/after.txt
tail -40 /tmp/fdemo/$F/after.txt
rm -f $WT/$PKG/demo_test.go
git status --short
