package lnwire

import (
	"bytes"
	"testing"

	"github.com/lightningnetwork/lnd/tlv"
	"github.com/stretchr/testify/require"
)

// TestF37TruncatedAddressRecord: the address-list records of node_announcement_2 (IPv4, IPv6, Tor v3) filled their fixed-size fields with
// r.Read, which returns without an error when FEWER bytes than asked for are left. A record whose declared length runs past the end of
// the message was accepted: `05 06 01 02 03 04 26` declares six bytes for one IPv4 address and carries five - it decoded to
// 1.2.3.4:9728 (port bytes 26 00, the second one never sent). A truncated record has to be refused (the length is not within bounds), and
// what is accepted has to be reproduced by decode-then-encode; this input comes back one byte longer.
func TestF37TruncatedAddressRecord(t *testing.T) {
	decode := func(b []byte) (IPV4Addrs, error) {
		rec := tlv.ZeroRecordT[tlv.TlvType5, IPV4Addrs]()
		s, err := tlv.NewStream(rec.Record())
		require.NoError(t, err)
		_, err = s.DecodeWithParsedTypesP2P(bytes.NewReader(b))
		return rec.Val, err
	}

	addrs, err := decode([]byte{0x05, 0x06, 1, 2, 3, 4, 0x26, 0x07})
	require.NoError(t, err)
	require.Len(t, addrs, 1)
	require.Equal(t, 0x2607, addrs[0].Port)

	addrs, err = decode([]byte{0x05, 0x06, 1, 2, 3, 4, 0x26})
	if err != nil {
		return // refused: fine
	}
	t.Fatalf("a 6-byte address record with only 5 bytes present was accepted as %v (the low port byte was never sent)", addrs[0])
}
