package contractcourt

import (
	"fmt"
	"sort"
	"testing"
	"time"

	"github.com/btcsuite/btcd/chainhash/v2"
	"github.com/btcsuite/btcd/wire/v2"
	"github.com/lightningnetwork/lnd/chainntnfs"
	"github.com/lightningnetwork/lnd/channeldb"
	"github.com/lightningnetwork/lnd/fn/v2"
	"github.com/lightningnetwork/lnd/lnwallet"
	"github.com/lightningnetwork/lnd/lnwire"
	"github.com/stretchr/testify/require"
)

// f11Observer collects everything the arbitrator does that is relevant for the
// property: the states it commits and the resolution messages (fail backs) it
// hands to the switch.
type f11Observer struct {
	t      *testing.T
	states []ArbitratorState
	failed []uint64
}

// drain reads the states and the resolution messages until nothing new shows
// up for the given quiet period.
func (o *f11Observer) drain(ctx *chanArbTestCtx, quiet time.Duration) {
	o.t.Helper()

	arbLog := ctx.log.(*mockArbitratorLog)
	for {
		select {
		case s := <-arbLog.newStates:
			o.states = append(o.states, s)

		case msgs := <-ctx.resolutions:
			for _, msg := range msgs {
				require.NotNil(o.t, msg.Failure)
				o.failed = append(o.failed, msg.HtlcIndex)
			}

		case <-time.After(quiet):
			return
		}
	}
}

func (o *f11Observer) failedSorted() []uint64 {
	res := append([]uint64{}, o.failed...)
	sort.Slice(res, func(i, j int) bool { return res[i] < res[j] })

	return res
}

// TestF11DustOnConfirmedCommitNotFailedBack runs the real channel arbitrator
// state machine for an offered (forwarded) HTLC that is far away from its
// expiry and checks the property "every offered HTLC that is dust on the
// confirmed commitment is failed back upstream exactly once".
func TestF11DustOnConfirmedCommitNotFailedBack(t *testing.T) {
	const htlcIndex = uint64(42)

	type testCase struct {
		name string

		// dustOnLocal says whether the HTLC is also dust on our own
		// commitment. It always is dust on the remote commitment.
		dustOnLocal bool

		// broadcastFirst says whether we broadcast our own commitment
		// (user force close) before the remote commitment confirms.
		broadcastFirst bool
	}

	testCases := []testCase{
		// Control: dust on both commitments. The fail back happens when
		// we broadcast. Shows that the harness observes fail backs.
		{
			name:           "control dust on both, we broadcast first",
			dustOnLocal:    true,
			broadcastFirst: true,
		},
		// Control 2: dust on both, the remote commitment confirms out
		// of the blue.
		{
			name:           "control dust on both, remote close",
			dustOnLocal:    true,
			broadcastFirst: false,
		},
		// Dust only on the remote commitment, which confirms while we
		// are in StateDefault.
		{
			name:           "dust on remote only, remote close",
			dustOnLocal:    false,
			broadcastFirst: false,
		},
		// Dust only on the remote commitment, we broadcast our own
		// commitment (where the HTLC has an output) but the remote one
		// is what confirms.
		{
			name:           "dust on remote only, we broadcast first",
			dustOnLocal:    false,
			broadcastFirst: true,
		},
	}

	for _, tc := range testCases {
		t.Run(tc.name, func(t *testing.T) {
			arbLog := &mockArbitratorLog{
				state:     StateDefault,
				newStates: make(chan ArbitratorState, 10),
				resolvers: make(map[ContractResolver]struct{}),
			}
			chanArbCtx, err := createTestChannelArbitrator(
				t, arbLog,
			)
			require.NoError(t, err)
			chanArb := chanArbCtx.chanArb

			require.NoError(
				t, chanArb.Start(nil, newBeatFromHeight(100)),
			)

			defer chanArb.Stop()

			chanArb.UpdateContractSignals(&ContractSignals{
				ShortChanID: lnwire.ShortChannelID{},
			})

			// The offered HTLC, forwarded for an upstream peer
			// (IsForwardedHTLC of the test config returns true). It
			// expires far in the future.
			localHtlc := channeldb.HTLC{
				Incoming:      false,
				Amt:           600_000,
				HtlcIndex:     htlcIndex,
				OutputIndex:   2,
				RefundTimeout: 5000,
				RHash:         [32]byte{0xf, 0x1, 0x1},
			}
			if tc.dustOnLocal {
				localHtlc.OutputIndex = -1
			}
			remoteHtlc := localHtlc
			remoteHtlc.OutputIndex = -1

			chanArb.notifyContractUpdate(&ContractUpdate{
				HtlcKey: LocalHtlcSet,
				Htlcs:   []channeldb.HTLC{localHtlc},
			})
			chanArb.notifyContractUpdate(&ContractUpdate{
				HtlcKey: RemoteHtlcSet,
				Htlcs:   []channeldb.HTLC{remoteHtlc},
			})

			obs := &f11Observer{t: t}

			if tc.broadcastFirst {
				errChan := make(chan error, 1)
				respChan := make(chan *wire.MsgTx, 1)
				chanArb.forceCloseReqs <- &forceCloseReq{
					errResp: errChan,
					closeTx: respChan,
				}

				// The arbitrator blocks on delivering its
				// resolution messages, so observe first.
				obs.drain(chanArbCtx, 300*time.Millisecond)

				select {
				case <-respChan:
				case <-time.After(defaultTimeout):
					t.Fatalf("no close tx")
				}
				select {
				case err := <-errChan:
					require.NoError(t, err)
				case <-time.After(defaultTimeout):
					t.Fatalf("no force close response")
				}

				obs.drain(chanArbCtx, 300*time.Millisecond)
				require.Equal(t, []ArbitratorState{
					StateBroadcastCommit,
					StateCommitmentBroadcasted,
				}, obs.states)
			}

			failedBeforeConf := obs.failedSorted()

			// Now the REMOTE commitment confirms. The HTLC is dust
			// there, so there are no HTLC resolutions. We don't have
			// a commitment output either.
			spendHash := chainhash.Hash{0xaa}
			uniClose := &lnwallet.UnilateralCloseSummary{
				SpendDetail: &chainntnfs.SpendDetail{
					SpenderTxHash:  &spendHash,
					SpendingHeight: 101,
				},
				HtlcResolutions: &lnwallet.HtlcResolutions{},
			}
			//nolint:ll
			chanArb.cfg.ChainEvents.RemoteUnilateralClosure <- &RemoteUnilateralCloseInfo{
				UnilateralCloseSummary: uniClose,
				CommitSet: CommitSet{
					ConfCommitKey: fn.Some(RemoteHtlcSet),
					HtlcSets: map[HtlcSetKey][]channeldb.HTLC{
						LocalHtlcSet:  {localHtlc},
						RemoteHtlcSet: {remoteHtlc},
					},
				},
			}

			obs.drain(chanArbCtx, 500*time.Millisecond)

			// One more block (the test consumer only has room for
			// a single processed-notification), nothing may be
			// pending any more.
			chanArb.BlockbeatChan <- newBeatFromHeight(102)
			obs.drain(chanArbCtx, 300*time.Millisecond)

			// There are no resolvers to wait for, so the arbitrator
			// walks straight through to StateFullyResolved.
			select {
			case <-chanArbCtx.resolvedChan:
			case <-time.After(defaultTimeout):
				t.Fatalf("channel not fully resolved")
			}
			require.Equal(t, StateFullyResolved, arbLog.state)

			t.Logf("OBSERVATION [%v]: states visited=%v, fail "+
				"backs before confirmation=%v, all fail "+
				"backs up to StateFullyResolved=%v", tc.name,
				obs.states, failedBeforeConf, obs.failed)

			// The property: the HTLC is dust on the confirmed
			// commitment, so it has to be failed back exactly once.
			require.Equal(
				t, []uint64{htlcIndex}, obs.failedSorted(),
				fmt.Sprintf("offered htlc %v is dust on the "+
					"confirmed remote commitment and must "+
					"be failed back upstream exactly once",
					htlcIndex),
			)
		})
	}
}
