package sweep

import (
	"testing"

	"github.com/btcsuite/btcd/wire/v2"
	"github.com/lightningnetwork/lnd/fn/v2"
	"github.com/lightningnetwork/lnd/input"
	"github.com/lightningnetwork/lnd/lnwallet/chainfee"
	"github.com/stretchr/testify/require"
)

// TestF42RecordedStartingRateErased: an input was already offered to the network at 5000 sat/kw (its recorded starting rate for the next
// attempt). A later attempt fails before any fee function exists - the results the publisher builds for ErrTxNoOutput / ErrZeroFeeRateDelta
// carry FeeRate 0 - and the failure handler overwrites the recorded rate with that 0, which the input set treats as "none": the next attempt
// starts from the estimator again, possibly far below 5000 sat/kw. Across successive attempts the offered rate must never decrease.
func TestF42RecordedStartingRateErased(t *testing.T) {
	s := New(&UtxoSweeperConfig{})

	op := wire.OutPoint{Index: 1}
	inp := &input.MockInput{}
	inp.On("OutPoint").Return(op)
	defer inp.AssertExpectations(t)

	s.inputs[op] = &SweeperInput{
		state:  Published,
		params: Params{StartingFeeRate: fn.Some(chainfee.SatPerKWeight(5000))},
	}

	set := &MockInputSet{}
	set.On("Inputs").Return([]input.Input{inp})
	defer set.AssertExpectations(t)

	// the failed attempt never got as far as a fee rate
	s.markInputsPublishFailed(set, 0)

	got := s.inputs[op].params.StartingFeeRate.UnwrapOr(0)
	require.GreaterOrEqual(t, got, chainfee.SatPerKWeight(5000),
		"the rate this input was already offered at is forgotten: the next attempt may start below it")
}
