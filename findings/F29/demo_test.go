package chainntnfs_test

import (
	"testing"

	"github.com/btcsuite/btcd/btcutil/v2"
	"github.com/btcsuite/btcd/wire/v2"
	"github.com/lightningnetwork/lnd/chainntnfs"
	"github.com/stretchr/testify/require"
)

// TestF29StaleRescanDetailsAfterCancelAndReorg: a client registers for a confirmation (historical rescan pending), cancels before
// the rescan finishes, the rescan then reports the transaction confirmed at height H, and block H is reorganised away. The cached
// details were not tracked for reorgs (tracking was only set up per client, and there was none), so they survived the disconnect:
// a client registering afterwards was told "confirmed" at once, for a transaction that is not on the active chain.
func TestF29StaleRescanDetailsAfterCancelAndReorg(t *testing.T) {
	const startingHeight = 10
	hintCache := newMockHintCache()
	n := chainntnfs.NewTxNotifier(startingHeight, 100, hintCache, hintCache)

	tx := wire.NewMsgTx(2)
	tx.AddTxOut(&wire.TxOut{PkScript: testRawScript})
	txHash := tx.TxHash()

	// Register (this asks the caller to run a historical rescan), then cancel.
	ntfn1, err := n.RegisterConf(&txHash, testRawScript, 1, 1)
	require.NoError(t, err)
	require.NotNil(t, ntfn1.HistoricalDispatch, "a rescan is requested")
	ntfn1.Event.Cancel()

	// The rescan finds the transaction in the current tip.
	block := btcutil.NewBlock(&wire.MsgBlock{Transactions: []*wire.MsgTx{tx}})
	details := &chainntnfs.TxConfirmation{
		BlockHeight: startingHeight, BlockHash: block.Hash(), TxIndex: 0, Tx: tx,
	}
	require.NoError(t, n.UpdateConfDetails(ntfn1.HistoricalDispatch.ConfRequest, details))

	// The tip is reorganised away and replaced by a block that does not contain the transaction.
	require.NoError(t, n.DisconnectTip(startingHeight))
	other := wire.NewMsgTx(2)
	other.AddTxOut(&wire.TxOut{PkScript: testRawScript, Value: 1})
	newBlock := btcutil.NewBlock(&wire.MsgBlock{Header: wire.BlockHeader{Nonce: 7}, Transactions: []*wire.MsgTx{other}})
	require.NoError(t, n.ConnectTip(newBlock, startingHeight))
	require.NoError(t, n.NotifyHeight(startingHeight))

	// A new client asks about the same transaction: it is unconfirmed on the active chain.
	ntfn2, err := n.RegisterConf(&txHash, testRawScript, 1, 1)
	require.NoError(t, err)
	select {
	case d := <-ntfn2.Event.Confirmed:
		t.Fatalf("told that the transaction is confirmed in block %v at height %d - that block was reorganised away, "+
			"the block now at that height is %v", d.BlockHash, d.BlockHeight, newBlock.Hash())
	default:
	}
}
