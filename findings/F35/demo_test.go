package chainntnfs_test

import (
	"testing"

	"github.com/btcsuite/btcd/btcutil/v2"
	"github.com/btcsuite/btcd/wire/v2"
	"github.com/lightningnetwork/lnd/chainntnfs"
	"github.com/stretchr/testify/require"
)

// TestF35ScriptSpentTwice: a client watches an output *script* for spends (no outpoint). An output paying to the script is spent in
// block 11, another output paying to the same script is spent in block 12 (address reuse; the confirmation side refuses this case
// with "Ignoring address reuse", the spend side did not). The second spend overwrote the details of the first and entered the
// request into a second height bucket. Two consequences, both checked here:
//
//  1. Block 12 alone is disconnected: the client is told "reorg" although the spend it was notified of (block 11) is still on the
//     active chain, and the request is back to "unspent".
//  2. Block 11 matures (11 + safety limit): the request is deleted, block 12's bucket still refers to it, and when block 12
//     matures ConnectTip dereferences the missing request - a nil pointer panic in the block-connected path of the notifier.
func TestF35ScriptSpentTwice(t *testing.T) {
	const (
		startingHeight = 10
		reorgSafety    = 5
	)

	spendBlock := func(prevIdx uint32, nonce uint32) *btcutil.Block {
		tx := wire.NewMsgTx(2)
		tx.AddTxIn(&wire.TxIn{
			PreviousOutPoint: wire.OutPoint{Hash: [32]byte{byte(nonce)}, Index: prevIdx},
			SignatureScript:  testSigScript,
		})
		tx.AddTxOut(&wire.TxOut{Value: int64(nonce), PkScript: []byte{0x51}})
		return btcutil.NewBlock(&wire.MsgBlock{
			Header: wire.BlockHeader{Nonce: nonce}, Transactions: []*wire.MsgTx{tx},
		})
	}
	emptyBlock := func(nonce uint32) *btcutil.Block {
		return btcutil.NewBlock(&wire.MsgBlock{Header: wire.BlockHeader{Nonce: nonce}})
	}

	t.Run("spurious reorg", func(t *testing.T) {
		hintCache := newMockHintCache()
		n := chainntnfs.NewTxNotifier(startingHeight, reorgSafety, hintCache, hintCache)

		ntfn, err := n.RegisterSpend(&chainntnfs.ZeroOutPoint, testRawScript, 1)
		require.NoError(t, err)

		require.NoError(t, n.ConnectTip(spendBlock(0, 1), 11))
		require.NoError(t, n.NotifyHeight(11))
		var first *chainntnfs.SpendDetail
		select {
		case first = <-ntfn.Event.Spend:
		default:
			t.Fatal("the spend in block 11 is not reported")
		}
		require.EqualValues(t, 11, first.SpendingHeight)

		// The same script is spent again one block later.
		require.NoError(t, n.ConnectTip(spendBlock(1, 2), 12))
		require.NoError(t, n.NotifyHeight(12))

		// Only block 12 is reorganised away; block 11 (the spend the client knows) stays.
		require.NoError(t, n.DisconnectTip(12))
		select {
		case <-ntfn.Event.Reorg:
			t.Fatalf("client was told that its spend (block 11) was reorganised out, but only block 12 was disconnected")
		default:
		}
	})

	t.Run("panic when the second bucket matures", func(t *testing.T) {
		hintCache := newMockHintCache()
		n := chainntnfs.NewTxNotifier(startingHeight, reorgSafety, hintCache, hintCache)

		_, err := n.RegisterSpend(&chainntnfs.ZeroOutPoint, testRawScript, 1)
		require.NoError(t, err)

		require.NoError(t, n.ConnectTip(spendBlock(0, 1), 11))
		require.NoError(t, n.NotifyHeight(11))
		require.NoError(t, n.ConnectTip(spendBlock(1, 2), 12))
		require.NoError(t, n.NotifyHeight(12))

		require.NotPanics(t, func() {
			for h := uint32(13); h <= 12+reorgSafety; h++ {
				require.NoError(t, n.ConnectTip(emptyBlock(h), h))
				require.NoError(t, n.NotifyHeight(h))
			}
		}, "ConnectTip must not panic when the height of the second spend matures")
	})
}
