package contractcourt

import (
	"bytes"
	"fmt"
	"testing"
	"time"

	"github.com/btcsuite/btcd/chainhash/v2"
	"github.com/btcsuite/btcd/txscript/v2"
	"github.com/btcsuite/btcd/wire/v2"
	"github.com/lightningnetwork/lnd/chainntnfs"
	"github.com/lightningnetwork/lnd/channeldb"
	"github.com/lightningnetwork/lnd/chanstate"
	"github.com/lightningnetwork/lnd/fn/v2"
	"github.com/lightningnetwork/lnd/input"
	"github.com/lightningnetwork/lnd/lntest/mock"
	"github.com/lightningnetwork/lnd/lntest/wait"
	"github.com/lightningnetwork/lnd/lntypes"
	"github.com/lightningnetwork/lnd/lnwallet"
	"github.com/lightningnetwork/lnd/lnwire"
	"github.com/stretchr/testify/assert"
	"github.com/stretchr/testify/require"
)

// f13NextInput returns the next input for the given outpoint that is offered
// to the mock sweeper, skipping inputs for other outpoints (the anchor).
func f13NextInput(t *testing.T, s *mockSweeper,
	op wire.OutPoint) input.Input {

	t.Helper()

	timeout := time.After(defaultTimeout)
	for {
		select {
		case inp := <-s.sweptInputs:
			if inp.OutPoint() == op {
				return inp
			}
		case <-timeout:
			t.Fatalf("input %v not offered to the sweeper", op)
		}
	}
}

// TestF13TaprootSuccessResolverKeepsPreimageAfterRestart closes a taproot
// channel with the remote commitment while an incoming HTLC whose preimage is
// not known yet is pending. The preimage is learned afterwards: the incoming
// contest resolver turns into a success resolver (swap, a durable write of the
// arbitrator log) and offers the HTLC output to the sweeper with the preimage.
// After a restart at that point the success resolver must still carry the
// preimage and offer the same sweep, as the uninterrupted run does.
func TestF13TaprootSuccessResolverKeepsPreimageAfterRestart(t *testing.T) {
	// A nil log gives us the real bolt backed arbitrator log.
	chanArbCtx, err := createTestChannelArbitrator(t, nil)
	require.NoError(t, err)
	chanArb := chanArbCtx.chanArb

	// The channel is a (staging) taproot channel.
	taprootChan := func() (*chanstate.OpenChannel, error) {
		return &chanstate.OpenChannel{
			ChanType: channeldb.SimpleTaprootFeatureBit |
				channeldb.AnchorOutputsBit |
				channeldb.ZeroHtlcTxFeeBit |
				channeldb.SingleFunderTweaklessBit,
		}, nil
	}
	chanArb.cfg.FetchHistoricalChannel = taprootChan

	beacon := chanArb.cfg.PreimageDB.(*mockWitnessBeacon)
	oldNotifier := chanArb.cfg.Notifier.(*mock.ChainNotifier)

	require.NoError(t, chanArb.Start(nil, newBeatFromHeight(0)))

	preimage := lntypes.Preimage{0x0f, 0x13, 0x01, 0x02, 0x03}
	payHash := preimage.Hash()

	const expiry = 1000
	htlc := channeldb.HTLC{
		Incoming:      true,
		Amt:           lnwire.MilliSatoshi(30_000_000),
		HtlcIndex:     5,
		OutputIndex:   0,
		RefundTimeout: expiry,
		RHash:         payHash,
	}

	// Taproot outputs and the data the sweep of the HTLC needs.
	taprootScript, err := txscript.PayToTaprootScript(
		testSignDesc.KeyDesc.PubKey,
	)
	require.NoError(t, err)
	ctrlBlock := bytes.Repeat([]byte{0xc0}, 33)

	commitHash := chainhash.Hash{0x0f, 0x13}
	htlcOp := wire.OutPoint{Hash: commitHash, Index: 0}

	htlcSignDesc := input.SignDescriptor{
		KeyDesc:       testSignDesc.KeyDesc,
		WitnessScript: []byte{0x51, 0x52},
		Output: &wire.TxOut{
			Value:    30_000,
			PkScript: taprootScript,
		},
		HashType:     txscript.SigHashDefault,
		ControlBlock: ctrlBlock,
	}

	uniClose := &lnwallet.UnilateralCloseSummary{
		SpendDetail: &chainntnfs.SpendDetail{
			SpenderTxHash:  &commitHash,
			SpendingHeight: 100,
		},
		HtlcResolutions: &lnwallet.HtlcResolutions{
			IncomingHTLCs: []lnwallet.IncomingHtlcResolution{{
				// The preimage is not known at close time.
				CsvDelay:      1,
				ClaimOutpoint: htlcOp,
				SweepSignDesc: htlcSignDesc,
			}},
		},
		AnchorResolution: &lnwallet.AnchorResolution{
			CommitAnchor: wire.OutPoint{Hash: commitHash, Index: 1},
			AnchorSignDescriptor: input.SignDescriptor{
				KeyDesc: testSignDesc.KeyDesc,
				Output: &wire.TxOut{
					Value:    330,
					PkScript: taprootScript,
				},
				HashType: txscript.SigHashDefault,
			},
		},
	}

	//nolint:ll
	chanArb.cfg.ChainEvents.RemoteUnilateralClosure <- &RemoteUnilateralCloseInfo{
		UnilateralCloseSummary: uniClose,
		CommitSet: CommitSet{
			ConfCommitKey: fn.Some(RemoteHtlcSet),
			HtlcSets: map[HtlcSetKey][]channeldb.HTLC{
				LocalHtlcSet:  {htlc},
				RemoteHtlcSet: {htlc},
			},
		},
	}

	chanArbCtx.AssertStateTransitions(
		StateContractClosed, StateWaitingFullResolution,
	)

	// The incoming contest resolver waits for the current height, then for
	// the preimage.
	select {
	case oldNotifier.EpochChan <- &chainntnfs.BlockEpoch{Height: 101}:
	case <-time.After(defaultTimeout):
		t.Fatal("epoch not consumed")
	}

	// We learn the preimage (e.g. from the outgoing link).
	beacon.lookupPreimage[payHash] = preimage
	select {
	case beacon.preImageUpdates <- preimage:
	case <-time.After(defaultTimeout):
		t.Fatal("preimage not consumed")
	}

	// Uninterrupted behaviour: the contest resolver is swapped for the
	// success resolver, which offers the HTLC output to the sweeper using
	// the learned preimage.
	inp := f13NextInput(t, chanArbCtx.sweeper, htlcOp)
	require.Equal(t, fn.Some(preimage), inp.Preimage(),
		"sweep of the uninterrupted run")

	// The swap is a durable write: the log now holds a success resolver
	// that carries the preimage.
	boltLog := chanArbCtx.log.(*testArbLog).ArbitratorLog
	err = wait.NoError(func() error {
		contracts, err := boltLog.FetchUnresolvedContracts()
		if err != nil {
			return err
		}
		for _, c := range contracts {
			s, ok := c.(*htlcSuccessResolver)
			if !ok {
				continue
			}
			if s.htlcResolution.Preimage != preimage {
				return fmt.Errorf("preimage not in the log")
			}

			return nil
		}

		return fmt.Errorf("no success resolver in the log: %T",
			contracts)
	}, defaultTimeout)
	require.NoError(t, err)

	// Restart right after the swap.
	chanArbCtxNew, err := chanArbCtx.Restart(func(c *chanArbTestCtx) {
		c.chanArb.cfg.FetchHistoricalChannel = taprootChan
	})
	require.NoError(t, err)
	defer chanArbCtxNew.CleanUp()
	chanArb = chanArbCtxNew.chanArb

	var restored *htlcSuccessResolver
	err = wait.NoError(func() error {
		chanArb.activeResolversLock.RLock()
		defer chanArb.activeResolversLock.RUnlock()

		for _, r := range chanArb.activeResolvers {
			if s, ok := r.(*htlcSuccessResolver); ok {
				restored = s
				return nil
			}
		}

		return fmt.Errorf("success resolver not relaunched: %v",
			len(chanArb.activeResolvers))
	}, defaultTimeout)
	require.NoError(t, err)

	// The resolver read from the log uses the config (and sweeper) of the
	// first arbitrator instance. It is relaunched and offers the HTLC
	// output to the sweeper again.
	inp = f13NextInput(t, chanArbCtx.sweeper, htlcOp)

	// The taproot data is restored from the logged resolutions ...
	require.Equal(
		t, ctrlBlock, restored.htlcResolution.SweepSignDesc.ControlBlock,
	)

	// ... and the preimage learned before the restart must still be there,
	// in the resolver and in the sweep request it produces.
	assert.Equal(t, preimage, lntypes.Preimage(
		restored.htlcResolution.Preimage,
	), "preimage of the success resolver after the restart")
	require.Equal(t, fn.Some(preimage), inp.Preimage(),
		"preimage of the sweep offered after the restart")
}
