package lnwallet

import (
	"testing"

	"github.com/btcsuite/btcd/btcutil/v2"
	"github.com/lightningnetwork/lnd/channeldb"
	"github.com/lightningnetwork/lnd/fn/v2"
	"github.com/lightningnetwork/lnd/lntypes"
)

// TestF18DemoCoopCloseNegativeFee feeds CoopCloseBalance the amount that a
// fee_satoshis wire value with the top bit set decodes to. Before the fix
// the "fee" was subtracted from the payer's balance, which increased it: the
// returned balances summed to more than the channel holds.
func TestF18DemoCoopCloseNegativeFee(t *testing.T) {
	const (
		ourBalance   = btcutil.Amount(400_000)
		theirBalance = btcutil.Amount(590_000)
		commitFee    = btcutil.Amount(10_000)
		capacity     = ourBalance + theirBalance + commitFee
	)

	// fee_satoshis = 0xffff_ffff_fff0_bdc0 on the wire.
	wireFee := uint64(0xffff_ffff_fff0_bdc0)
	fee := btcutil.Amount(wireFee)

	ours, theirs, err := CoopCloseBalance(
		channeldb.SingleFunderTweaklessBit, true, fee, ourBalance,
		theirBalance, commitFee, fn.None[lntypes.ChannelParty](),
	)
	if err == nil {
		t.Fatalf("CoopCloseBalance accepted close fee %d sat: "+
			"balances ours=%d theirs=%d sum=%d exceed the channel "+
			"capacity %d by %d sat", int64(fee), int64(ours),
			int64(theirs), int64(ours+theirs), int64(capacity),
			int64(ours+theirs-capacity))
	}
	t.Logf("rejected as expected: %v", err)
}
