package lnwallet

import (
	"testing"

	"github.com/btcsuite/btcd/txscript/v2"
	"github.com/btcsuite/btcd/wire/v2"
	"github.com/lightningnetwork/lnd/channeldb"
	"github.com/lightningnetwork/lnd/fn/v2"
	"github.com/lightningnetwork/lnd/input"
	"github.com/lightningnetwork/lnd/lnwire"
	"github.com/stretchr/testify/require"
)

// TestF31LeaseChannelJusticeNeedsLockTime: on a script-enforced-lease channel that WE opened, our own output on the counterparty's
// commitment (to_remote for them) carries "<lease expiry> OP_CHECKLOCKTIMEVERIFY" on top of the 1-block CSV. When the counterparty
// broadcasts a REVOKED commitment, the breach arbitrator puts that output into its justice transactions as a
// CommitmentToRemoteConfirmed input; breachedOutput.RequiredLockTime() reports "none", so the justice transactions have lock time 0.
// The input then fails the script ("locktime requirement not satisfied"): the spend-all and the commit-outputs variants - the only
// ones that contain the revoked to_local output - are invalid until the lease expires, which is long after the cheater's CSV delay.
func TestF31LeaseChannelJusticeNeedsLockTime(t *testing.T) {
	chanType := channeldb.SingleFunderTweaklessBit | channeldb.AnchorOutputsBit |
		channeldb.ZeroHtlcTxFeeBit | channeldb.LeaseExpirationBit

	// alice is the initiator of the test channels: she is the victim.
	alice, bob, err := CreateTestChannels(t, chanType)
	require.NoError(t, err)
	const thawHeight = 4000
	alice.channelState.ThawHeight = thawHeight
	bob.channelState.ThawHeight = thawHeight
	require.True(t, alice.channelState.IsInitiator)

	// One state transition so that the commitments are built with the lease expiry, then bob's commitment is recorded and
	// revoked by one more transition.
	htlc0, _ := createHTLC(0, lnwire.NewMSatFromSatoshis(150_000))
	addAndReceiveHTLC(t, alice, bob, htlc0, nil)
	require.NoError(t, ForceStateTransition(alice, bob))

	revoked := bob.channelState.LocalCommitment
	revokedTx := revoked.CommitTx.Copy()
	htlc1, _ := createHTLC(1, lnwire.NewMSatFromSatoshis(90_000))
	addAndReceiveHTLC(t, alice, bob, htlc1, nil)
	require.NoError(t, ForceStateTransition(alice, bob))
	require.Greater(t, alice.channelState.RemoteCommitment.CommitHeight, revoked.CommitHeight)

	br, err := NewBreachRetribution(
		alice.channelState, revoked.CommitHeight, 100, revokedTx,
		fn.None[AuxLeafStore](), fn.None[AuxContractResolver](),
	)
	require.NoError(t, err)
	require.NotNil(t, br.LocalOutputSignDesc, "our own output on the revoked commitment")
	ourOut := revokedTx.TxOut[br.LocalOutpoint.Index]

	spend := func(lockTime uint32) error {
		// What the breach arbitrator builds for this input: version 2, sequence = BlocksToMaturity (1), no lock time.
		tx := wire.NewMsgTx(2)
		tx.LockTime = lockTime
		tx.AddTxIn(&wire.TxIn{PreviousOutPoint: br.LocalOutpoint, Sequence: 1})
		tx.AddTxOut(&wire.TxOut{Value: ourOut.Value - 1000, PkScript: []byte{txscript.OP_1, 0x01, 0x02}})

		fetcher := txscript.NewCannedPrevOutputFetcher(ourOut.PkScript, ourOut.Value)
		desc := *br.LocalOutputSignDesc
		desc.PrevOutputFetcher = fetcher
		hashes := txscript.NewTxSigHashes(tx, fetcher)
		script, err := input.CommitmentToRemoteConfirmed.WitnessGenerator(alice.Signer, &desc)(tx, hashes, 0)
		require.NoError(t, err)
		tx.TxIn[0].Witness = script.Witness

		vm, err := txscript.NewEngine(
			ourOut.PkScript, tx, 0, txscript.StandardVerifyFlags, nil, hashes, ourOut.Value, fetcher,
		)
		require.NoError(t, err)

		return vm.Execute()
	}

	require.NoError(t, spend(thawHeight), "with the lease expiry as lock time the input is valid")
	require.NoError(t, spend(0), "the justice transaction the breach arbitrator builds (lock time 0) cannot spend our own output, "+
		"so every justice variant that contains the revoked to_local output is invalid")
}
