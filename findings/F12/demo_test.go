package contractcourt

import (
	"errors"
	"sync"
	"sync/atomic"
	"testing"
	"time"

	"github.com/btcsuite/btcd/chainhash/v2"
	"github.com/btcsuite/btcd/wire/v2"
	"github.com/lightningnetwork/lnd/chainntnfs"
	"github.com/lightningnetwork/lnd/channeldb"
	"github.com/lightningnetwork/lnd/fn/v2"
	"github.com/lightningnetwork/lnd/input"
	"github.com/lightningnetwork/lnd/lnwallet"
	"github.com/stretchr/testify/require"
)

// errF12Crashed is returned by every durable write that is attempted after the
// simulated crash point: the process is gone, so the write never happens.
var errF12Crashed = errors.New("f12: process stopped, write never happened")

// f12CrashLog wraps the real bolt backed arbitrator log. When crashAfterResolved
// is set, the process "dies" right after the durable write of a resolver
// checkpoint with resolved=true: this write still reaches the disk, every later
// write is dropped.
type f12CrashLog struct {
	ArbitratorLog

	crashAfterResolved bool
	dead               atomic.Bool

	// waitingCommitted is closed once StateWaitingFullResolution has been
	// committed. The resolved checkpoint is held back until then to make
	// the stop point deterministic (the resolver runs concurrently with the
	// state machine).
	waitingCommitted chan struct{}
	once             sync.Once

	states chan ArbitratorState
}

func newF12CrashLog(backing ArbitratorLog, crash bool) *f12CrashLog {
	return &f12CrashLog{
		ArbitratorLog:      backing,
		crashAfterResolved: crash,
		waitingCommitted:   make(chan struct{}),
		states:             make(chan ArbitratorState, 20),
	}
}

func (l *f12CrashLog) CommitState(s ArbitratorState) error {
	if l.dead.Load() {
		return errF12Crashed
	}
	if err := l.ArbitratorLog.CommitState(s); err != nil {
		return err
	}
	if s == StateWaitingFullResolution {
		l.once.Do(func() { close(l.waitingCommitted) })
	}
	l.states <- s

	return nil
}

func (l *f12CrashLog) InsertUnresolvedContracts(
	reports []*channeldb.ResolverReport,
	resolvers ...ContractResolver) error {

	if l.dead.Load() {
		return errF12Crashed
	}

	var resolved bool
	for _, r := range resolvers {
		resolved = resolved || r.IsResolved()
	}
	if resolved {
		select {
		case <-l.waitingCommitted:
		case <-time.After(defaultTimeout):
			return errors.New("f12: waiting state never committed")
		}
	}

	err := l.ArbitratorLog.InsertUnresolvedContracts(reports, resolvers...)
	if err != nil {
		return err
	}

	// The final checkpoint of the resolver is on disk. Stop here.
	if resolved && l.crashAfterResolved {
		l.dead.Store(true)
	}

	return nil
}

func (l *f12CrashLog) SwapContract(o, n ContractResolver) error {
	if l.dead.Load() {
		return errF12Crashed
	}

	return l.ArbitratorLog.SwapContract(o, n)
}

func (l *f12CrashLog) ResolveContract(r ContractResolver) error {
	if l.dead.Load() {
		return errF12Crashed
	}

	return l.ArbitratorLog.ResolveContract(r)
}

func (l *f12CrashLog) waitForState(t *testing.T, want ArbitratorState,
	timeout time.Duration) bool {

	t.Helper()

	deadline := time.After(timeout)
	for {
		select {
		case s := <-l.states:
			if s == want {
				return true
			}
		case <-deadline:
			return false
		}
	}
}

// f12RemoteClose sends a remote force close whose only contract is our
// commitment output.
func f12RemoteClose(chanArb *ChannelArbitrator) {
	commitHash := chainhash.Hash{0x0f, 0x12}
	uniClose := &lnwallet.UnilateralCloseSummary{
		SpendDetail: &chainntnfs.SpendDetail{
			SpenderTxHash:  &commitHash,
			SpendingHeight: 100,
		},
		HtlcResolutions: &lnwallet.HtlcResolutions{},
		CommitResolution: &lnwallet.CommitOutputResolution{
			SelfOutPoint: wire.OutPoint{Hash: commitHash, Index: 1},
			SelfOutputSignDesc: input.SignDescriptor{
				WitnessScript: []byte{0x51},
				Output:        &wire.TxOut{Value: 50_000},
			},
		},
	}

	//nolint:ll
	chanArb.cfg.ChainEvents.RemoteUnilateralClosure <- &RemoteUnilateralCloseInfo{
		UnilateralCloseSummary: uniClose,
		CommitSet: CommitSet{
			ConfCommitKey: fn.Some(RemoteHtlcSet),
			HtlcSets: map[HtlcSetKey][]channeldb.HTLC{
				LocalHtlcSet:  {},
				RemoteHtlcSet: {},
			},
		},
	}
}

// TestF12ResolvedButNotRemovedAfterRestart stops the node between the final
// checkpoint of a resolver (resolved=true, a durable write of the arbitrator
// log) and the removal of that resolver from the log by the channel arbitrator
// (log.ResolveContract), restarts, and expects the channel to reach
// StateFullyResolved like the uninterrupted run does.
func TestF12ResolvedButNotRemovedAfterRestart(t *testing.T) {
	run := func(t *testing.T, crash bool) {
		// Context zero only gives us the real bolt backed log (created
		// with the same config the resolvers read from it will use). Its
		// arbitrator is never started.
		ctx0, err := createTestChannelArbitrator(t, nil)
		require.NoError(t, err)
		t.Cleanup(ctx0.cleanUp)

		boltLog := ctx0.log.(*testArbLog).ArbitratorLog
		_, ok := boltLog.(*boltArbitratorLog)
		require.True(t, ok)

		// First run.
		log1 := newF12CrashLog(boltLog, crash)
		ctx1, err := createTestChannelArbitrator(t, log1)
		require.NoError(t, err)
		require.NoError(
			t, ctx1.chanArb.Start(nil, newBeatFromHeight(0)),
		)

		f12RemoteClose(ctx1.chanArb)

		require.True(t, log1.waitForState(
			t, StateWaitingFullResolution, defaultTimeout,
		))

		// The commit output is offered to the sweeper, the (mock)
		// sweeper reports the sweep as confirmed, the resolver marks
		// itself resolved and checkpoints.
		select {
		case <-ctx1.sweeper.sweptInputs:
		case <-time.After(defaultTimeout):
			t.Fatal("commit output not offered to the sweeper")
		}

		if !crash {
			// Uninterrupted run: the resolver is removed from the
			// log and the channel becomes fully resolved.
			require.True(t, log1.waitForState(
				t, StateFullyResolved, defaultTimeout,
			), "uninterrupted run did not reach StateFullyResolved")

			select {
			case <-ctx1.resolvedChan:
			case <-time.After(defaultTimeout):
				t.Fatal("channel not marked resolved")
			}
			require.NoError(t, ctx1.chanArb.Stop())

			return
		}

		// Wait for the stop point: the resolved checkpoint is on disk,
		// everything after it is lost.
		require.Eventually(t, log1.dead.Load, defaultTimeout,
			10*time.Millisecond)
		require.NoError(t, ctx1.chanArb.Stop())

		// What is on disk now: the state is StateWaitingFullResolution
		// and the log still holds the resolver, marked resolved.
		state, err := boltLog.CurrentState(nil)
		require.NoError(t, err)
		require.Equal(t, StateWaitingFullResolution, state)

		onDisk, err := boltLog.FetchUnresolvedContracts()
		require.NoError(t, err)
		require.Len(t, onDisk, 1)
		require.IsType(t, &commitSweepResolver{}, onDisk[0])
		require.True(t, onDisk[0].IsResolved())

		// Restart on the same log.
		log2 := newF12CrashLog(boltLog, false)
		ctx2, err := createTestChannelArbitrator(t, log2)
		require.NoError(t, err)
		require.NoError(
			t, ctx2.chanArb.Start(nil, newBeatFromHeight(101)),
		)
		defer func() {
			require.NoError(t, ctx2.chanArb.Stop())
		}()

		// A new block does not help either. (Only one: the test helper
		// does not drain the consumer's processed-notification.)
		ctx2.receiveBlockbeat(102)

		reached := log2.waitForState(
			t, StateFullyResolved, 5*time.Second,
		)

		left, err := boltLog.FetchUnresolvedContracts()
		require.NoError(t, err)
		diskState, err := boltLog.CurrentState(nil)
		require.NoError(t, err)

		require.Truef(t, reached, "after the restart the channel never "+
			"reached StateFullyResolved: state on disk=%v, "+
			"contracts left in the log=%d (resolved=%v); the "+
			"uninterrupted run reaches StateFullyResolved",
			diskState, len(left),
			len(left) > 0 && left[0].IsResolved())

		select {
		case <-ctx2.resolvedChan:
		case <-time.After(defaultTimeout):
			t.Fatal("channel not marked resolved after the restart")
		}
		require.Empty(t, left)
	}

	t.Run("uninterrupted", func(t *testing.T) { run(t, false) })
	t.Run("stop_after_resolved_checkpoint", func(t *testing.T) {
		run(t, true)
	})
}
