package brontide

import (
	"io"
	"testing"
	"time"

	"github.com/stretchr/testify/require"
)

// TestF30ZeroLengthMessageLooksLikeEOF: a zero-length message is a legal brontide message. Read through the stream interface
// (Conn.Read), it made a healthy connection report io.EOF: the empty plaintext left the read buffer empty and bytes.Buffer.Read on
// an empty buffer returns (0, io.EOF). A reader that stops at EOF (io.ReadAll, io.Copy, bufio) never sees the messages that follow.
func TestF30ZeroLengthMessageLooksLikeEOF(t *testing.T) {
	local, remote, err := establishTestConnection(t)
	require.NoError(t, err)
	defer local.Close()
	defer remote.Close()

	go func() {
		_, _ = local.Write([]byte{})
		_, _ = local.Write([]byte("next"))
	}()

	_ = remote.SetReadDeadline(time.Now().Add(5 * time.Second))
	buf := make([]byte, 16)
	n, err := remote.Read(buf)
	if err == io.EOF {
		t.Fatalf("Read returned (%d, io.EOF) on a healthy connection after a zero-length message", n)
	}
	require.NoError(t, err)
	require.Equal(t, "next", string(buf[:n]), "the bytes of the next message")
}
