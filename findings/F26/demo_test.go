package graphdb

import (
	"testing"

	"github.com/lightningnetwork/lnd/fn/v2"
	"github.com/lightningnetwork/lnd/graph/db/models"
	"github.com/lightningnetwork/lnd/lnwire"
	"github.com/lightningnetwork/lnd/routing/route"
	"github.com/stretchr/testify/require"
)

// TestF26GraphCacheKeepsWithdrawnInboundFee: a node first advertises an inbound fee (here a discount) and later sends a channel
// update WITHOUT the inbound fee record - it now charges no inbound fee. The graph cache - what the pathfinder reads - kept the old
// fee, because UpdatePolicy only ever overwrote it when the new policy carried one. Routes were then priced with a discount that no
// longer exists and are refused by the node with fee_insufficient (the database path without the cache reports a zero fee).
func TestF26GraphCacheKeepsWithdrawnInboundFee(t *testing.T) {
	for _, node := range []route.Vertex{pubKey1, pubKey2} {
		other, isNode1 := route.Vertex(pubKey2), true
		if node == pubKey2 {
			other, isNode1 = pubKey1, false
		}

		discount := lnwire.Fee{BaseFee: -1000, FeeRate: -500}
		mkOut := func(fee fn.Option[lnwire.Fee]) *models.CachedEdgePolicy {
			return &models.CachedEdgePolicy{
				ChannelID:    1000,
				IsNode1:      isNode1,
				ToNodePubKey: func() route.Vertex { return other },
				InboundFee:   fee,
			}
		}
		in := &models.CachedEdgePolicy{
			ChannelID:    1000,
			IsNode1:      !isNode1,
			ToNodePubKey: func() route.Vertex { return node },
		}

		cache := NewGraphCache(10)
		info := &models.CachedEdgeInfo{
			ChannelID: 1000, NodeKey1Bytes: pubKey1, NodeKey2Bytes: pubKey2, Capacity: 500,
		}
		if isNode1 {
			cache.AddChannel(info, mkOut(fn.Some(discount)), in)
		} else {
			cache.AddChannel(info, in, mkOut(fn.Some(discount)))
		}

		inboundFee := func() lnwire.Fee {
			var fee lnwire.Fee
			_ = cache.ForEachChannel(node, func(c *DirectedChannel) error {
				fee = c.InboundFee
				return nil
			})
			return fee
		}
		require.Equal(t, discount, inboundFee(), "the advertised discount is cached")

		// The node withdraws its inbound fee: the new update has no inbound fee record.
		cache.UpdatePolicy(mkOut(fn.None[lnwire.Fee]()), node, other)
		require.Equal(t, lnwire.Fee{}, inboundFee(),
			"the cache still prices routes with an inbound fee the node no longer advertises")
	}
}
