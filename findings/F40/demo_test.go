package lnwire

import (
	"bytes"
	"testing"

	"github.com/lightningnetwork/lnd/tlv"
	"github.com/stretchr/testify/require"
)

// TestF40StaticRecordLengthIgnored: the colour record of node_announcement_2 (3 bytes) and the outpoint record of channel_announcement_2
// (34 bytes) are records of static size, but their decoders never looked at the declared length. With a longer declared length they read
// their 3 (34) bytes and left the rest of the value in the stream, where the tlv stream decoder takes it for the next record:
// `01 05 11 22 33 05 00` declares a 5-byte colour; it was accepted as colour #112233 followed by an (empty) record 5 that the sender never
// sent. A stream is accepted exactly when its lengths are within bounds, and decode-then-encode has to reproduce it; this one comes back
// as `01 03 11 22 33 05 00`.
func TestF40StaticRecordLengthIgnored(t *testing.T) {
	t.Run("colour", func(t *testing.T) {
		decode := func(b []byte) error {
			col := tlv.ZeroRecordT[tlv.TlvType1, Color]()
			addrs := tlv.ZeroRecordT[tlv.TlvType5, IPV4Addrs]()
			s, err := tlv.NewStream(col.Record(), addrs.Record())
			require.NoError(t, err)
			_, err = s.DecodeWithParsedTypesP2P(bytes.NewReader(b))
			return err
		}
		require.NoError(t, decode([]byte{0x01, 0x03, 0x11, 0x22, 0x33, 0x05, 0x00}))
		require.Error(t, decode([]byte{0x01, 0x05, 0x11, 0x22, 0x33, 0x05, 0x00}),
			"a 5-byte colour record was accepted; its last two bytes were read as a record 5 of length 0")
	})

	t.Run("outpoint", func(t *testing.T) {
		decode := func(b []byte) error {
			op := tlv.ZeroRecordT[tlv.TlvType18, OutPoint]()
			s, err := tlv.NewStream(op.Record())
			require.NoError(t, err)
			_, err = s.DecodeWithParsedTypesP2P(bytes.NewReader(b))
			return err
		}
		good := append([]byte{18, 34}, make([]byte, 34)...)
		require.NoError(t, decode(good))
		// 36 bytes declared: 34 are read, the remaining `13 00` would be record 19 of length 0
		long := append([]byte{18, 36}, make([]byte, 34)...)
		long = append(long, 19, 0)
		require.Error(t, decode(long), "a 36-byte outpoint record was accepted; its last two bytes were read as a further record")
	})
}
