//go:build test_db_sqlite && !test_db_postgres

package paymentsdb

import (
	"crypto/sha256"
	"testing"
	"time"

	"github.com/stretchr/testify/require"
)

// TestF22DemoSQLResolveAttemptOfOtherPayment creates two payments A and B in
// the SQL payment store, each with one in-flight attempt, and then resolves
// an attempt while naming the OTHER payment's hash. Before the fix both calls
// succeeded: SettleAttempt(hashA, attemptOfB) made payment B succeeded, and
// FailAttempt(hashB, attemptOfA) released A's in-flight amount so that a second
// full-amount attempt was admitted for A.
func TestF22DemoSQLResolveAttemptOfOtherPayment(t *testing.T) {
	ctx := t.Context()

	t.Run("settle", func(t *testing.T) {
		paymentDB, _ := NewTestDB(t)

		preimgA := genPreimage(t)
		hashA := sha256.Sum256(preimgA[:])
		infoA := genPaymentCreationInfo(t, hashA)
		attemptA := genAttemptWithHash(t, 1, genSessionKey(t), hashA)

		preimgB := genPreimage(t)
		hashB := sha256.Sum256(preimgB[:])
		infoB := genPaymentCreationInfo(t, hashB)
		attemptB := genAttemptWithHash(t, 2, genSessionKey(t), hashB)

		require.NoError(t, paymentDB.InitPayment(ctx, hashA, infoA))
		require.NoError(t, paymentDB.InitPayment(ctx, hashB, infoB))
		_, err := paymentDB.RegisterAttempt(ctx, hashA, attemptA)
		require.NoError(t, err)
		_, err = paymentDB.RegisterAttempt(ctx, hashB, attemptB)
		require.NoError(t, err)

		// Settle B's attempt (ID 2) through payment A, with A's
		// preimage.
		_, err = paymentDB.SettleAttempt(
			ctx, hashA, attemptB.AttemptID, &HTLCSettleInfo{
				Preimage:   preimgA,
				SettleTime: time.Now(),
			},
		)

		payB, fetchErr := paymentDB.FetchPayment(ctx, hashB)
		require.NoError(t, fetchErr)

		if err == nil {
			t.Errorf("SettleAttempt(hashA, attempt %d of payment "+
				"B) returned nil; payment B is now %v",
				attemptB.AttemptID, payB.Status)
		} else {
			t.Logf("refused as expected: %v", err)
		}
		require.Equal(t, StatusInFlight, payB.Status,
			"payment B must stay in flight")
	})

	t.Run("fail", func(t *testing.T) {
		paymentDB, _ := NewTestDB(t)

		preimgA := genPreimage(t)
		hashA := sha256.Sum256(preimgA[:])
		infoA := genPaymentCreationInfo(t, hashA)
		attemptA := genAttemptWithHash(t, 1, genSessionKey(t), hashA)

		preimgB := genPreimage(t)
		hashB := sha256.Sum256(preimgB[:])
		infoB := genPaymentCreationInfo(t, hashB)
		attemptB := genAttemptWithHash(t, 2, genSessionKey(t), hashB)

		require.NoError(t, paymentDB.InitPayment(ctx, hashA, infoA))
		require.NoError(t, paymentDB.InitPayment(ctx, hashB, infoB))
		_, err := paymentDB.RegisterAttempt(ctx, hashA, attemptA)
		require.NoError(t, err)
		_, err = paymentDB.RegisterAttempt(ctx, hashB, attemptB)
		require.NoError(t, err)

		// Fail A's attempt (ID 1) through payment B.
		_, err = paymentDB.FailAttempt(
			ctx, hashB, attemptA.AttemptID, &HTLCFailInfo{
				Reason:   HTLCFailUnreadable,
				FailTime: time.Now(),
			},
		)
		if err == nil {
			t.Errorf("FailAttempt(hashB, attempt %d of payment A) "+
				"returned nil", attemptA.AttemptID)
		} else {
			t.Logf("refused as expected: %v", err)
		}

		// A's attempt is still on the wire, so a second full-amount
		// attempt for A must be refused.
		attemptA2 := genAttemptWithHash(t, 3, genSessionKey(t), hashA)
		_, err = paymentDB.RegisterAttempt(ctx, hashA, attemptA2)
		if err == nil {
			payA, fetchErr := paymentDB.FetchPayment(ctx, hashA)
			require.NoError(t, fetchErr)
			t.Errorf("a second full-amount attempt was admitted "+
				"for payment A (value %v): it now has %d "+
				"attempts", infoA.Value, len(payA.HTLCs))
		} else {
			t.Logf("second attempt for A refused as expected: %v",
				err)
		}
	})
}
