package contractcourt

import (
	"testing"

	"github.com/lightningnetwork/lnd/channeldb"
	"github.com/lightningnetwork/lnd/kvdb"
	"github.com/stretchr/testify/require"
)

// TestF34PendingRetributionFromBeforeTaproot: a retribution that was persisted by a version without taproot support (the
// "retribution" bucket exists, the "tap-retribution" bucket was never created) and is still pending after the upgrade. ForAll - which
// the breach arbitrator runs on every start to resume pending justice - read the taproot bucket without checking that it exists and
// called Get on a nil bucket: the node panics on start and the breach is never punished.
func TestF34PendingRetributionFromBeforeTaproot(t *testing.T) {
	db := channeldb.OpenForTesting(t, t.TempDir())
	rs := NewRetributionStore(db)

	// Persist a retribution, then remove the taproot bucket: the state an older version leaves behind.
	require.NoError(t, rs.Add(&retributions[0]))
	require.NoError(t, kvdb.Update(db, func(tx kvdb.RwTx) error {
		return tx.DeleteTopLevelBucket(taprootRetributionBucket)
	}, func() {}))

	var n int
	require.NotPanics(t, func() {
		err := rs.ForAll(func(*retributionInfo) error {
			n++
			return nil
		}, func() { n = 0 })
		require.NoError(t, err)
	})
	require.Equal(t, 1, n, "the pending retribution is handed to the breach arbitrator")
}
