package contractcourt

import (
	"errors"
	"fmt"
	"sort"
	"sync"
	"testing"
	"time"

	"github.com/btcsuite/btcd/chainhash/v2"
	"github.com/btcsuite/btcd/wire/v2"
	"github.com/lightningnetwork/lnd/chainntnfs"
	"github.com/lightningnetwork/lnd/channeldb"
	"github.com/lightningnetwork/lnd/fn/v2"
	"github.com/lightningnetwork/lnd/input"
	"github.com/lightningnetwork/lnd/lntest/wait"
	"github.com/lightningnetwork/lnd/lntypes"
	"github.com/lightningnetwork/lnd/lnwallet"
	"github.com/lightningnetwork/lnd/lnwire"
	"github.com/stretchr/testify/require"
)

var errC13Dead = errors.New("simulated stop: write did not reach disk")

// c13StopLog wraps the real bolt backed ArbitratorLog. It counts every durable
// write (including the MarkChannelClosed write to channeldb, see tick) and
// simulates the node stopping after the first `allowed` writes: every later
// write is dropped and reported as an error.
type c13StopLog struct {
	ArbitratorLog

	mu      sync.Mutex
	allowed int
	done    int
	dead    bool
	deadCh  chan struct{}
}

func newC13StopLog(log ArbitratorLog, allowed int) *c13StopLog {
	return &c13StopLog{
		ArbitratorLog: log,
		allowed:       allowed,
		deadCh:        make(chan struct{}),
	}
}

// tick accounts for one durable write. It returns an error if the node is
// already "stopped".
func (l *c13StopLog) tick() error {
	l.mu.Lock()
	defer l.mu.Unlock()

	if l.dead {
		return errC13Dead
	}
	if l.done >= l.allowed {
		l.dead = true
		close(l.deadCh)

		return errC13Dead
	}
	l.done++

	return nil
}

func (l *c13StopLog) CommitState(s ArbitratorState) error {
	if err := l.tick(); err != nil {
		return err
	}

	return l.ArbitratorLog.CommitState(s)
}

func (l *c13StopLog) LogContractResolutions(c *ContractResolutions) error {
	if err := l.tick(); err != nil {
		return err
	}

	return l.ArbitratorLog.LogContractResolutions(c)
}

func (l *c13StopLog) InsertConfirmedCommitSet(c *CommitSet) error {
	if err := l.tick(); err != nil {
		return err
	}

	return l.ArbitratorLog.InsertConfirmedCommitSet(c)
}

func (l *c13StopLog) InsertUnresolvedContracts(
	reports []*channeldb.ResolverReport, res ...ContractResolver) error {

	if err := l.tick(); err != nil {
		return err
	}

	return l.ArbitratorLog.InsertUnresolvedContracts(reports, res...)
}

func (l *c13StopLog) SwapContract(o, n ContractResolver) error {
	if err := l.tick(); err != nil {
		return err
	}

	return l.ArbitratorLog.SwapContract(o, n)
}

func (l *c13StopLog) ResolveContract(r ContractResolver) error {
	if err := l.tick(); err != nil {
		return err
	}

	return l.ArbitratorLog.ResolveContract(r)
}

// c13Outcome is what we compare between the uninterrupted run and the runs
// with a stop.
type c13Outcome struct {
	state     ArbitratorState
	resolvers []string
	commitKey HtlcSetKey
	numHtlcs  int
}

func c13RemoteCloseEvent() *RemoteUnilateralCloseInfo {
	commitHash := chainhash.Hash{0x0c, 0x13}
	htlc := channeldb.HTLC{
		RHash: lntypes.Hash{0xaa}, Amt: lnwire.MilliSatoshi(20_000_000),
		HtlcIndex: 5, RefundTimeout: 1000, OutputIndex: 0,
	}

	return &RemoteUnilateralCloseInfo{
		UnilateralCloseSummary: &lnwallet.UnilateralCloseSummary{
			SpendDetail: &chainntnfs.SpendDetail{
				SpenderTxHash:  &commitHash,
				SpendingHeight: 100,
			},
			//nolint:ll
			HtlcResolutions: &lnwallet.HtlcResolutions{
				OutgoingHTLCs: []lnwallet.OutgoingHtlcResolution{{
					Expiry: 1000,
					ClaimOutpoint: wire.OutPoint{
						Hash: commitHash, Index: 0,
					},
					SweepSignDesc: input.SignDescriptor{
						Output: &wire.TxOut{},
					},
				}},
			},
		},
		CommitSet: CommitSet{
			ConfCommitKey: fn.Some(RemoteHtlcSet),
			HtlcSets: map[HtlcSetKey][]channeldb.HTLC{
				RemoteHtlcSet: {htlc},
			},
		},
	}
}

// c13RunRemoteClose processes a remote force close, stopping the node after
// `allowed` durable writes, restarts it and returns the outcome reached after
// the restart.
func c13RunRemoteClose(t *testing.T, allowed int) c13Outcome {
	t.Helper()

	// Obtain a real bolt backed log.
	baseCtx, err := createTestChannelArbitrator(t, nil)
	require.NoError(t, err)
	defer baseCtx.cleanUp()
	boltLog := baseCtx.log.(*testArbLog).ArbitratorLog

	stopLog := newC13StopLog(boltLog, allowed)

	// markedClosed mirrors the durable "pending close" flag of channeldb.
	var (
		mu           sync.Mutex
		markedClosed bool
	)
	markClosed := func(*channeldb.ChannelCloseSummary,
		...channeldb.ChannelStatus) error {

		if err := stopLog.tick(); err != nil {
			return err
		}

		mu.Lock()
		markedClosed = true
		mu.Unlock()

		return nil
	}

	ctx, err := createTestChannelArbitrator(
		t, stopLog, withMarkClosed(markClosed),
	)
	require.NoError(t, err)
	require.NoError(t, ctx.chanArb.Start(nil, newBeatFromHeight(0)))

	ctx.chanArb.cfg.ChainEvents.RemoteUnilateralClosure <- c13RemoteCloseEvent()

	// Wait until the node "stopped", or, if no stop is scheduled, until
	// the close was fully processed.
	err = wait.NoError(func() error {
		select {
		case <-stopLog.deadCh:
			return nil
		default:
		}

		s, err := boltLog.CurrentState(nil)
		if err != nil {
			return err
		}
		if s != StateWaitingFullResolution {
			return fmt.Errorf("state=%v", s)
		}

		return nil
	}, 5*time.Second)
	require.NoError(t, err, "neither stopped nor finished")
	require.NoError(t, ctx.chanArb.Stop())

	// Restart with a healthy log. Whether the channel is pending close is
	// whatever made it to channeldb before the stop. If it was not marked
	// closed yet, the chain watcher is still alive after the restart and
	// delivers the close event again.
	mu.Lock()
	pendingClose := markedClosed
	mu.Unlock()

	healthy := newC13StopLog(boltLog, 1<<30)
	newCtx, err := createTestChannelArbitrator(
		t, healthy, withMarkClosed(func(*channeldb.ChannelCloseSummary,
			...channeldb.ChannelStatus) error {

			return nil
		}),
	)
	require.NoError(t, err)
	if pendingClose {
		newCtx.chanArb.cfg.IsPendingClose = true
		newCtx.chanArb.cfg.ClosingHeight = 100
		newCtx.chanArb.cfg.CloseType = channeldb.RemoteForceClose
	}
	require.NoError(t, newCtx.chanArb.Start(nil, newBeatFromHeight(0)))
	defer func() {
		require.NoError(t, newCtx.chanArb.Stop())
	}()

	if !pendingClose {
		newCtx.chanArb.cfg.ChainEvents.RemoteUnilateralClosure <- c13RemoteCloseEvent()
	}

	// Let the restarted arbitrator settle.
	var outcome c13Outcome
	_ = wait.NoError(func() error {
		s, err := boltLog.CurrentState(nil)
		if err != nil {
			return err
		}
		outcome.state = s
		if s != StateWaitingFullResolution {
			return fmt.Errorf("state=%v", s)
		}

		return nil
	}, 3*time.Second)

	unresolved, err := boltLog.FetchUnresolvedContracts()
	require.NoError(t, err)
	for _, r := range unresolved {
		outcome.resolvers = append(
			outcome.resolvers,
			fmt.Sprintf("%T:%x", r, r.ResolverKey()),
		)
	}
	sort.Strings(outcome.resolvers)

	commitSet, err := boltLog.FetchConfirmedCommitSet(nil)
	if err == nil {
		outcome.commitKey = commitSet.ConfCommitKey.UnwrapOr(
			HtlcSetKey{},
		)
		outcome.numHtlcs = len(commitSet.HtlcSets[outcome.commitKey])
	}

	return outcome
}

// TestC13RemoteCloseStopAfterEveryWrite stops the node after every durable
// write performed while a remote force close is processed (contract
// resolutions, confirmed commit set, channel marked closed, state commits,
// resolver insertion), restarts it on top of the real bolt backed log and
// requires the same outcome as the uninterrupted run.
func TestF8RestartInContractClosed(t *testing.T) {
	// The uninterrupted run performs 6 durable writes.
	const numWrites = 6

	expected := c13RunRemoteClose(t, 1<<30)
	require.Equal(t, StateWaitingFullResolution, expected.state)
	require.Len(t, expected.resolvers, 1)
	require.Equal(t, RemoteHtlcSet, expected.commitKey)
	require.Equal(t, 1, expected.numHtlcs)

	for k := 0; k <= numWrites; k++ {
		k := k

		// A stop right after CommitState(StateContractClosed) (4th
		// write) is not part of this demonstration: on the unmodified
		// tree the restarted arbitrator re-executes StateContractClosed
		// with a plain chain trigger and therefore builds a different
		// set of resolvers. That is independent of the seeded change.
		if k != 4 {
			continue
		}

		t.Run(fmt.Sprintf("stop_after_write_%d", k), func(t *testing.T) {
			got := c13RunRemoteClose(t, k)
			require.Equal(t, expected, got,
				"outcome after stop/restart differs from the "+
					"uninterrupted run")
		})
	}
}
