//go:build !test_db_sqlite && !test_db_postgres

package paymentsdb

import (
	"crypto/sha256"
	"testing"

	"github.com/lightningnetwork/lnd/lnwire"
	"github.com/lightningnetwork/lnd/record"
	"github.com/stretchr/testify/require"
)

// TestF21DemoKVRegisterAttemptDuplicateID registers two MPP shards of one
// payment under the SAME attempt ID in the kv payment store. Before the fix
// the second registration silently replaced the first shard: the store then
// counted only the last shard as in flight and admitted shards worth 140% of
// the payment amount, while the first HTLC (which is on the wire) was
// forgotten.
func TestF21DemoKVRegisterAttemptDuplicateID(t *testing.T) {
	ctx := t.Context()

	paymentDB := NewKVTestDB(t)

	preimg := genPreimage(t)
	rhash := sha256.Sum256(preimg[:])
	info := genPaymentCreationInfo(t, rhash)

	err := paymentDB.InitPayment(ctx, info.PaymentIdentifier, info)
	require.NoError(t, err)

	payAddr := [32]byte{1}
	shard := func(id uint64, amt lnwire.MilliSatoshi) *HTLCAttemptInfo {
		a := genAttemptWithHash(t, id, genSessionKey(t), rhash)
		a.Route.FinalHop().AmtToForward = amt
		a.Route.FinalHop().MPP = record.NewMPP(info.Value, payAddr)

		return a
	}

	amt40 := info.Value * 4 / 10
	amt60 := info.Value * 6 / 10

	// First shard, 40% of the payment, attempt ID 7.
	_, err = paymentDB.RegisterAttempt(
		ctx, info.PaymentIdentifier, shard(7, amt40),
	)
	require.NoError(t, err)

	// Second shard, 60% of the payment, again under attempt ID 7. The
	// store must refuse it.
	_, err = paymentDB.RegisterAttempt(
		ctx, info.PaymentIdentifier, shard(7, amt60),
	)
	if err != nil {
		t.Logf("duplicate attempt ID refused as expected: %v", err)

		// The first shard must be untouched.
		p, err := paymentDB.FetchPayment(ctx, info.PaymentIdentifier)
		require.NoError(t, err)
		require.Len(t, p.HTLCs, 1)
		require.Equal(t, amt40, p.HTLCs[0].Route.ReceiverAmt())

		return
	}

	// Defective behaviour: show what the store now believes.
	p, err := paymentDB.FetchPayment(ctx, info.PaymentIdentifier)
	require.NoError(t, err)
	sent, _ := p.SentAmt()
	t.Errorf("second registration under attempt ID 7 was accepted: "+
		"store holds %d HTLC(s), counts %v in flight although "+
		"%v + %v = %v were handed to the switch", len(p.HTLCs), sent,
		amt40, amt60, amt40+amt60)

	// And a further 40% shard is admitted: 140% of the payment value.
	_, err = paymentDB.RegisterAttempt(
		ctx, info.PaymentIdentifier, shard(8, amt40),
	)
	if err == nil {
		t.Errorf("third shard of %v admitted: %v sent in total for a "+
			"payment of %v", amt40, amt40+amt60+amt40, info.Value)
	}
}
