//go:build test_db_sqlite && !test_db_postgres

package paymentsdb

import (
	"crypto/sha256"
	"testing"

	"github.com/stretchr/testify/require"
)

// TestF25RegisterAttemptUnknownPaymentSQL: registering an attempt for a payment hash that was never initiated (or was
// deleted) must be refused with ErrPaymentNotInitiated - that is what the kv store answers and what FetchPayment, Fail,
// SettleAttempt and FailAttempt of the SQL store answer. Before the fix SQLStore.RegisterAttempt returned the raw
// "sql: no rows in result set", so the two back ends answered the same history differently.
func TestF25RegisterAttemptUnknownPaymentSQL(t *testing.T) {
	ctx := t.Context()
	paymentDB, _ := NewTestDB(t)

	preimg := genPreimage(t)
	hash := sha256.Sum256(preimg[:])
	attempt := genAttemptWithHash(t, 1, genSessionKey(t), hash)

	_, err := paymentDB.RegisterAttempt(ctx, hash, attempt)
	require.Error(t, err)
	require.ErrorIs(t, err, ErrPaymentNotInitiated, "unknown payment: got %v", err)

	// Same after a payment was initiated, failed and deleted.
	info := genPaymentCreationInfo(t, hash)
	require.NoError(t, paymentDB.InitPayment(ctx, hash, info))
	_, err = paymentDB.Fail(ctx, hash, FailureReasonNoRoute)
	require.NoError(t, err)
	require.NoError(t, paymentDB.DeletePayment(ctx, hash, false))

	_, err = paymentDB.RegisterAttempt(ctx, hash, attempt)
	require.ErrorIs(t, err, ErrPaymentNotInitiated, "deleted payment: got %v", err)
}
