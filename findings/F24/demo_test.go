package htlcswitch_test

import (
	"testing"

	"github.com/lightningnetwork/lnd/htlcswitch"
	"github.com/lightningnetwork/lnd/lnwire"
	"github.com/stretchr/testify/assert"
	"github.com/stretchr/testify/require"
)

// TestF24SecondKeystoneForOpenCircuit: a circuit that is already open must not be opened a second time under another
// outgoing key, and one batch must not use the same outgoing key twice. Before the fix both were accepted: the circuit map
// then held two `opened` entries for one incoming HTLC (only the last is removed by DeleteCircuits, so a response
// arriving under the stale outgoing key was still matched to a circuit and relayed - a second response for one HTLC),
// and a batch with a duplicate outgoing key left memory and disk in disagreement.
func TestF24SecondKeystoneForOpenCircuit(t *testing.T) {
	chan1 := lnwire.NewShortChanIDFromInt(1)
	chan2 := lnwire.NewShortChanIDFromInt(2)

	mk := func(id uint64) *htlcswitch.PaymentCircuit {
		return &htlcswitch.PaymentCircuit{
			Incoming:       htlcswitch.CircuitKey{ChanID: chan1, HtlcID: id},
			ErrorEncrypter: testExtracter,
		}
	}

	t.Run("second keystone for an open circuit", func(t *testing.T) {
		_, cm := newCircuitMap(t, false)
		c := mk(3)
		_, err := cm.CommitCircuits(c)
		require.NoError(t, err)

		out0 := htlcswitch.CircuitKey{ChanID: chan2, HtlcID: 0}
		out1 := htlcswitch.CircuitKey{ChanID: chan2, HtlcID: 1}
		require.NoError(t, cm.OpenCircuits(htlcswitch.Keystone{InKey: c.Incoming, OutKey: out0}))

		err = cm.OpenCircuits(htlcswitch.Keystone{InKey: c.Incoming, OutKey: out1})
		accepted := err == nil
		assert.Error(t, err, "a circuit that already has a keystone was opened again")
		assert.Equal(t, 1, cm.NumOpen(), "one incoming HTLC, one open circuit")

		// The response for the outgoing HTLC closes the circuit and the circuit is deleted. Afterwards no
		// outgoing key may still lead to a circuit: a late (or replayed) response must find nothing.
		last := out0
		if accepted {
			last = out1
		}
		_, err = cm.CloseCircuit(last)
		require.NoError(t, err)
		require.NoError(t, cm.DeleteCircuits(c.Incoming))
		for _, out := range []htlcswitch.CircuitKey{out0, out1} {
			_, err = cm.CloseCircuit(out)
			assert.Error(t, err, "a response under outgoing key %v is still matched to the deleted circuit "+
				"(a second response for one incoming HTLC)", out)
		}
		assert.Equal(t, 0, cm.NumOpen(), "a stale opened entry survives the deletion")
	})

	t.Run("duplicate outgoing key in one batch", func(t *testing.T) {
		_, cm := newCircuitMap(t, false)
		c2, c3 := mk(2), mk(3)
		_, err := cm.CommitCircuits(c2, c3)
		require.NoError(t, err)

		out := htlcswitch.CircuitKey{ChanID: chan2, HtlcID: 5}
		err = cm.OpenCircuits(
			htlcswitch.Keystone{InKey: c2.Incoming, OutKey: out},
			htlcswitch.Keystone{InKey: c3.Incoming, OutKey: out},
		)
		require.Error(t, err, "two circuits were opened under one outgoing key")
		require.Equal(t, 0, cm.NumOpen())
	})
}
