package contractcourt

import (
	"testing"

	"github.com/btcsuite/btcd/wire/v2"
	"github.com/lightningnetwork/lnd/channeldb"
	"github.com/lightningnetwork/lnd/chanstate"
	"github.com/lightningnetwork/lnd/input"
	"github.com/lightningnetwork/lnd/lnwallet"
	"github.com/stretchr/testify/require"
)

// TestF33RelaunchWithoutHistoricalChannel: on a restart relaunchResolvers tolerates that the historical channel state cannot be
// found (ErrNoHistoricalBucket / ErrChannelNotFound are logged, chanState stays nil) and skips SupplementState for the resolvers it
// read from the log. The anchor resolver it re-creates a few lines further down was supplemented unconditionally:
// anchorResolver.SupplementState(nil) dereferences the nil channel and the restart panics.
func TestF33RelaunchWithoutHistoricalChannel(t *testing.T) {
	log := &mockArbitratorLog{
		state:     StateWaitingFullResolution,
		newStates: make(chan ArbitratorState, 5),
		resolvers: make(map[ContractResolver]struct{}),
		resolutions: &ContractResolutions{
			AnchorResolution: &lnwallet.AnchorResolution{
				AnchorSignDescriptor: input.SignDescriptor{
					Output: &wire.TxOut{Value: 330},
				},
			},
		},
	}

	ctx, err := createTestChannelArbitrator(t, log, func(o *testChanArbOpts) {
		o.arbCfg.FetchHistoricalChannel = func() (*chanstate.OpenChannel, error) {
			return nil, channeldb.ErrChannelNotFound
		}
	})
	require.NoError(t, err)

	require.NotPanics(t, func() {
		err = ctx.chanArb.relaunchResolvers(&CommitSet{}, 100)
	}, "a restart with an anchor resolution and no historical channel state")
	require.NoError(t, err)
}
