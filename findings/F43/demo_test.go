package lnwire

import (
	"bytes"
	"runtime"
	"testing"

	"github.com/stretchr/testify/require"
)

// TestF43SigCountAllocatesBeforeReading: the decoder of a signature list (the HTLC signatures of commit_sig) read the 2-byte count and
// allocated that many signatures before reading a single one. A 100-byte commit_sig that declares 65535 signatures made the decoder
// allocate about 4.7 MB and then fail with EOF. Decoding must not allocate beyond what the 65 KB message bound implies: a message can
// carry at most 65533/64 = 1023 signatures.
func TestF43SigCountAllocatesBeforeReading(t *testing.T) {
	// channel id (32) + commit sig (64) + num_htlcs = 0xffff + two stray bytes
	msg := make([]byte, 32+64, 100)
	msg = append(msg, 0xff, 0xff, 0x00, 0x00)

	var before, after runtime.MemStats
	runtime.GC()
	runtime.ReadMemStats(&before)

	var c CommitSig
	err := c.Decode(bytes.NewReader(msg), 0)

	runtime.ReadMemStats(&after)
	require.Error(t, err)

	allocated := after.TotalAlloc - before.TotalAlloc
	require.Less(t, allocated, uint64(256*1024), "decoding a 100-byte commit_sig allocated %d bytes", allocated)
}
