package lnwire

import (
	"bytes"
	"testing"

	"github.com/lightningnetwork/lnd/tlv"
	"github.com/stretchr/testify/require"
)

// TestF36BooleanRecordLengthOne: TrueBoolean is a record of static size zero (the "second peer" flag, type 8, of channel_update_2; also
// used in the mission-control store). Its decoder accepted a declared length of 1 but never read the value byte, so that byte was taken
// as the TYPE of the next record. The stream `08 01 0e 01 05` says: record 8 with the one-byte value 0x0e, then the dangling bytes
// `01 05` (type 1 < 8: not canonical). It was accepted and read as {8: flag, 14: 0x05} - a record 14 the sender never sent - and
// decode-then-encode gives `08 00 0e 01 05`, not the input.
func TestF36BooleanRecordLengthOne(t *testing.T) {
	decode := func(b []byte) (bool, uint8, error) {
		flag := tlv.ZeroRecordT[tlv.TlvType8, TrueBoolean]()
		var v uint8
		rec14 := tlv.MakePrimitiveRecord(14, &v)
		s, err := tlv.NewStream(flag.Record(), rec14)
		require.NoError(t, err)
		parsed, err := s.DecodeWithParsedTypesP2P(bytes.NewReader(b))
		_, has8 := parsed[8]
		return has8, v, err
	}

	// the canonical form of the flag is accepted
	has8, _, err := decode([]byte{0x08, 0x00})
	require.NoError(t, err)
	require.True(t, has8)

	has8, v, err := decode([]byte{0x08, 0x01, 0x0e, 0x01, 0x05})
	if err != nil {
		return // refused: fine
	}
	t.Fatalf("stream 08 01 0e 01 05 accepted (flag=%v) and a record 14 with value %d was read out of the VALUE of record 8; "+
		"re-encoding gives 08 00 0e 01 05, not the input", has8, v)
}
