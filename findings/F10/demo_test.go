package routing

import (
	"bytes"
	"fmt"
	"testing"

	"github.com/btcsuite/btcd/btcec/v2"
	sphinx "github.com/lightningnetwork/lightning-onion"
	"github.com/lightningnetwork/lnd/lnwire"
	"github.com/lightningnetwork/lnd/record"
	"github.com/lightningnetwork/lnd/routing/route"
	"github.com/lightningnetwork/lnd/tlv"
	"github.com/stretchr/testify/require"
)

// f10RealRoutingInfoSize computes the number of bytes of onion routing info
// that the given route really needs: for every hop the packed TLV payload, the
// varint length prefix of that payload and the 32 byte HMAC. This is exactly
// what sphinx.NewOnionPacket sums up (PaymentPath.TotalPayloadSize) and
// compares against sphinx.MaxRoutingPayloadSize.
func f10RealRoutingInfoSize(t *testing.T, rt *route.Route) (int, []int) {
	t.Helper()

	var (
		total  int
		perHop []int
	)
	for i, hop := range rt.Hops {
		finalHop := i == len(rt.Hops)-1

		var nextChanID uint64
		if !finalHop {
			nextChanID = rt.Hops[i+1].ChannelID
		}

		var b bytes.Buffer
		require.NoError(t, hop.PackHopPayload(&b, nextChanID, finalHop))

		size := b.Len() + int(tlv.VarIntSize(uint64(b.Len()))) +
			sphinx.HMACSize

		perHop = append(perHop, size)
		total += size
	}

	return total, perHop
}

// f10EstimatedRoutingInfoSize re-computes the value that findPath accumulated
// in nodeWithDist.routingInfoSize for the returned path: the last hop estimate
// plus the hopPayloadSizeFn of every edge that does not start at the source.
func f10EstimatedRoutingInfoSize(t *testing.T, r *RestrictParams,
	finalHtlcExpiry int32, amt lnwire.MilliSatoshi, path []*unifiedEdge,
	rt *route.Route) (uint64, uint64) {

	t.Helper()

	lastHop, err := lastHopPayloadSize(r, finalHtlcExpiry, amt)
	require.NoError(t, err)

	total := lastHop
	for i := 1; i < len(path); i++ {
		// Edge i leaves the node that hop i-1 of the route pays to, so
		// the payload of that hop is what the edge's size function
		// estimates.
		hop := rt.Hops[i-1]
		total += path[i].hopPayloadSizeFn(
			hop.AmtToForward, hop.OutgoingTimeLock,
			path[i].policy.ChannelID,
		)
	}

	return total, lastHop
}

type f10Result struct {
	cipherLen   int
	estimate    uint64
	lastHopEst  uint64
	real        int
	perHop      []int
	sphinxTotal int
	onionErr    error
}

// f10Run runs pathfinding + route construction (the same two steps as
// ChannelRouter.FindRoute / paymentSession.RequestRoute) for one blinded
// payment and returns the estimated and the real routing info size. ok is false
// if pathfinding refused to return a path (estimate above the limit).
func f10Run(t *testing.T, ctx *pathFindingTestContext,
	payment *BlindedPayment, amt, totalAmt lnwire.MilliSatoshi,
	height uint32) (*f10Result, bool) {

	t.Helper()

	return f10RunOpts(t, ctx, payment, amt, totalAmt, height, f10Opts{})
}

// f10Opts are optional final hop parameters of the payment.
type f10Opts struct {
	// destCustomRecords is put into RestrictParams.DestCustomRecords for
	// pathfinding and into finalHopParams.records for newRoute, like
	// ChannelRouter.FindRoute (QueryRoutes) and
	// paymentSession.RequestRoute do.
	destCustomRecords record.CustomSet

	// metadata is put into RestrictParams.Metadata for pathfinding and into
	// finalHopParams.metadata for newRoute, like
	// paymentSession.RequestRoute does.
	metadata []byte

	// likeRequestRoute leaves RestrictParams.BlindedPaymentPathSet unset,
	// which is what paymentSession.RequestRoute does (only the QueryRoutes
	// rpc fills that field).
	likeRequestRoute bool
}

// f10RunOpts is f10Run with optional final hop parameters.
func f10RunOpts(t *testing.T, ctx *pathFindingTestContext,
	payment *BlindedPayment, amt, totalAmt lnwire.MilliSatoshi,
	height uint32, opts f10Opts) (*f10Result, bool) {

	t.Helper()

	pathSet, err := NewBlindedPaymentPathSet([]*BlindedPayment{payment})
	require.NoError(t, err)

	hints, err := pathSet.ToRouteHints()
	require.NoError(t, err)

	restrictions := *noRestrictions
	if !opts.likeRequestRoute {
		restrictions.BlindedPaymentPathSet = pathSet
	}
	restrictions.DestFeatures = pathSet.Features()
	restrictions.DestCustomRecords = opts.destCustomRecords
	restrictions.Metadata = opts.metadata

	var (
		target      = route.NewVertex(pathSet.TargetPubKey())
		finalExpiry = pathSet.FinalCLTVDelta()

		// Same as in ChannelRouter.FindRoute.
		finalHtlcExpiry = int32(height) + int32(finalExpiry)
	)

	path, err := dbFindPath(
		ctx.v1Graph, hints, ctx.bandwidthHints, &restrictions,
		&ctx.pathFindingConfig, ctx.source, target, amt, 0,
		finalHtlcExpiry,
	)
	if err == errNoPathFound {
		return nil, false
	}
	require.NoError(t, err)

	rt, err := newRoute(
		ctx.source, path, height, finalHopParams{
			amt:       amt,
			totalAmt:  totalAmt,
			cltvDelta: finalExpiry,
			records:   opts.destCustomRecords,
			metadata:  opts.metadata,
		}, pathSet,
	)
	require.NoError(t, err)

	numHops := len(payment.BlindedPath.BlindedHops)
	lastCipher := payment.BlindedPath.BlindedHops[numHops-1].CipherText

	res := &f10Result{cipherLen: len(lastCipher)}
	res.estimate, res.lastHopEst = f10EstimatedRoutingInfoSize(
		t, &restrictions, finalHtlcExpiry, amt, path, rt,
	)
	res.real, res.perHop = f10RealRoutingInfoSize(t, rt)

	// Now do what lnd does when it sends the HTLC: convert to a sphinx path
	// and build the onion packet.
	sphinxPath, err := rt.ToSphinxPath()
	require.NoError(t, err)
	res.sphinxTotal = sphinxPath.TotalPayloadSize()

	sessionKey, _ := btcec.PrivKeyFromBytes(bytes.Repeat([]byte{7}, 32))
	paymentHash := bytes.Repeat([]byte{9}, 32)
	_, res.onionErr = sphinx.NewOnionPacket(
		sphinxPath, sessionKey, paymentHash,
		sphinx.DeterministicPacketFiller,
	)

	return res, true
}

// TestF10BlindedLastHopSizeEstimate shows that for a payment to a blinded path
// which only consists of the introduction node, pathfinding returns routes
// whose real onion routing info is larger than sphinx.MaxRoutingPayloadSize,
// because the final hop estimate (lastHopPayloadSize) leaves out the
// total_amount_msat record (tlv type 18) that newRoute always adds to the final
// hop of a blinded route.
func TestF10BlindedLastHopSizeEstimate(t *testing.T) {
	t.Parallel()

	const (
		height uint32 = 100

		// 100_000 msat: the truncated total_amount_msat value is 3
		// bytes long, so the missing record is 1 + 1 + 3 = 5 bytes.
		amt lnwire.MilliSatoshi = 100_000
	)

	policy := &testChannelPolicy{
		Expiry:  40,
		FeeRate: 0,
		MinHTLC: 1,
		MaxHTLC: 100_000_000,
	}

	// start -- a -- b -- intro.
	testChannels := []*testChannel{
		symmetricTestChannel("start", "a", 100_000, policy, 1),
		symmetricTestChannel("a", "b", 100_000, policy, 2),
		symmetricTestChannel("b", "intro", 100_000, policy, 3),
	}

	// NOTE: the test graph derives its node keys from the small integers
	// 1, 2, 3, ... so we use other seeds for the blinded keys.
	_, blindingPoint := btcec.PrivKeyFromBytes([]byte{0x55})
	_, blindedPk := btcec.PrivKeyFromBytes([]byte{0x77})

	type testCase struct {
		name string

		// source is the alias of the sending node.
		source string

		// totalAmt is the total payment amount (== amt unless the
		// payment is split).
		totalAmt lnwire.MilliSatoshi

		// payment builds the blinded payment for a given cipher text
		// length of the final blinded hop.
		payment func(introPk *btcec.PublicKey,
			cipherLen int) *BlindedPayment

		minLen, maxLen int
	}

	introOnly := func(introPk *btcec.PublicKey,
		cipherLen int) *BlindedPayment {

		return &BlindedPayment{
			BlindedPath: &sphinx.BlindedPath{
				IntroductionPoint: introPk,
				BlindingPoint:     blindingPoint,
				BlindedHops: []*sphinx.BlindedHopInfo{{
					CipherText: bytes.Repeat(
						[]byte{1}, cipherLen,
					),
				}},
			},
			CltvExpiryDelta: 40,
			HtlcMinimum:     1,
			HtlcMaximum:     100_000_000,
			Features:        tlvFeatures,
		}
	}

	introPlusOne := func(introPk *btcec.PublicKey,
		cipherLen int) *BlindedPayment {

		return &BlindedPayment{
			BlindedPath: &sphinx.BlindedPath{
				IntroductionPoint: introPk,
				BlindingPoint:     blindingPoint,
				BlindedHops: []*sphinx.BlindedHopInfo{
					{
						CipherText: bytes.Repeat(
							[]byte{1}, 50,
						),
					},
					{
						BlindedNodePub: blindedPk,
						CipherText: bytes.Repeat(
							[]byte{1}, cipherLen,
						),
					},
				},
			},
			CltvExpiryDelta: 40,
			HtlcMinimum:     1,
			HtlcMaximum:     100_000_000,
			Features:        tlvFeatures,
		}
	}

	testCases := []testCase{
		{
			// Three hop route start->a->b->intro, the blinded path
			// is the introduction node only.
			name:     "intro node only, 3 hops",
			source:   "start",
			totalAmt: amt,
			payment:  introOnly,
			minLen:   1000,
			maxLen:   1300,
		},
		{
			// Direct channel b->intro: the onion holds nothing but
			// the final hop payload.
			name:     "intro node only, direct channel",
			source:   "b",
			totalAmt: amt,
			payment:  introOnly,
			minLen:   1100,
			maxLen:   1300,
		},
		{
			// Same, but the HTLC is a shard of a bigger payment:
			// total_amount_msat (4 value bytes) is longer than
			// amt_to_forward (3 value bytes).
			name:     "intro node only, direct channel, shard",
			source:   "b",
			totalAmt: 20_000_000,
			payment:  introOnly,
			minLen:   1100,
			maxLen:   1300,
		},
		{
			// Control: a blinded path with one blinded hop behind
			// the introduction node. Here pathfinding appends a
			// dummy NUMS hop that is sized like the real last hop,
			// which over-estimates by a whole hop and therefore
			// hides the missing record.
			name:     "intro node plus one blinded hop (control)",
			source:   "start",
			totalAmt: amt,
			payment:  introPlusOne,
			minLen:   300,
			maxLen:   700,
		},
	}

	for _, tc := range testCases {
		t.Run(tc.name, func(t *testing.T) {
			ctx := newPathFindingTestContext(
				t, true, testChannels, tc.source,
			)

			introVertex := ctx.keyFromAlias("intro")
			introPk, err := btcec.ParsePubKey(introVertex[:])
			require.NoError(t, err)

			var (
				failures   []string
				numFound   int
				maxFoundAt = -1
			)
			for l := tc.minLen; l <= tc.maxLen; l++ {
				res, ok := f10Run(
					t, ctx, tc.payment(introPk, l), amt,
					tc.totalAmt, height,
				)
				if !ok {
					continue
				}
				numFound++
				maxFoundAt = l

				// Sanity: our byte counting is what sphinx
				// counts, and pathfinding only returned this
				// path because its estimate is within limits.
				require.Equal(t, res.sphinxTotal, res.real)
				require.LessOrEqual(
					t, res.estimate,
					uint64(sphinx.MaxRoutingPayloadSize),
				)

				// Only print the interesting region.
				if res.estimate >= 1290 {
					t.Logf("cipherLen=%d estimate=%d "+
						"(lastHopEstimate=%d) real=%d "+
						"perHop=%v onionErr=%v",
						res.cipherLen, res.estimate,
						res.lastHopEst, res.real,
						res.perHop, res.onionErr)
				}

				if res.real > sphinx.MaxRoutingPayloadSize ||
					res.onionErr != nil {

					failures = append(failures, fmt.Sprintf(
						"cipherLen=%d: pathfinding "+
							"estimate=%d (<= %d) but real "+
							"routing info size=%d, "+
							"perHop=%v, "+
							"sphinx.NewOnionPacket: %v",
						res.cipherLen, res.estimate,
						sphinx.MaxRoutingPayloadSize,
						res.real, res.perHop,
						res.onionErr,
					))
				}
			}

			// The sweep must have crossed the boundary: some
			// lengths find a path, the largest ones do not.
			require.NotZero(t, numFound)
			require.Less(t, maxFoundAt, tc.maxLen,
				"sweep did not reach the size limit")

			for _, f := range failures {
				t.Errorf("route returned by pathfinding does "+
					"not fit into the onion: %s", f)
			}
		})
	}
}

// TestF10BlindedLastHopIgnoresDestCustomRecords shows that for a payment to an
// introduction-node-only blinded path the final hop estimate of pathfinding
// (blinded branch of lastHopPayloadSize) ignores RestrictParams.DestCustomRecords
// and RestrictParams.Metadata, while newRoute attaches both to the final hop of
// the blinded route. Pathfinding therefore returns routes which exceed the
// onion size by the size of those records.
func TestF10BlindedLastHopIgnoresDestCustomRecords(t *testing.T) {
	t.Parallel()

	const (
		height uint32              = 100
		amt    lnwire.MilliSatoshi = 100_000
	)

	policy := &testChannelPolicy{
		Expiry:  40,
		MinHTLC: 1,
		MaxHTLC: 100_000_000,
	}

	// start -- a -- b -- intro.
	testChannels := []*testChannel{
		symmetricTestChannel("start", "a", 100_000, policy, 1),
		symmetricTestChannel("a", "b", 100_000, policy, 2),
		symmetricTestChannel("b", "intro", 100_000, policy, 3),
	}

	_, blindingPoint := btcec.PrivKeyFromBytes([]byte{0x55})

	introOnly := func(introPk *btcec.PublicKey,
		cipherLen int) *BlindedPayment {

		return &BlindedPayment{
			BlindedPath: &sphinx.BlindedPath{
				IntroductionPoint: introPk,
				BlindingPoint:     blindingPoint,
				BlindedHops: []*sphinx.BlindedHopInfo{{
					CipherText: bytes.Repeat(
						[]byte{1}, cipherLen,
					),
				}},
			},
			CltvExpiryDelta: 40,
			HtlcMinimum:     1,
			HtlcMaximum:     100_000_000,
			Features:        tlvFeatures,
		}
	}

	blob := bytes.Repeat([]byte{3}, 200)

	testCases := []struct {
		name           string
		opts           f10Opts
		minLen, maxLen int
	}{
		{
			// Reachable through the QueryRoutes rpc, which fills
			// both RestrictParams.BlindedPaymentPathSet and
			// RestrictParams.DestCustomRecords and hands the same
			// records to newRoute (ChannelRouter.FindRoute).
			name: "dest custom record of 200 bytes",
			opts: f10Opts{
				destCustomRecords: record.CustomSet{
					record.CustomTypeStart: blob,
				},
			},
			minLen: 700,
			maxLen: 1300,
		},
		{
			name: "metadata of 200 bytes",
			opts: f10Opts{
				metadata: blob,
			},
			minLen: 700,
			maxLen: 1300,
		},
		{
			// What paymentSession.RequestRoute (SendPaymentV2) does:
			// RestrictParams.BlindedPaymentPathSet stays nil, so the
			// NON blinded branch of lastHopPayloadSize is used. It
			// counts the custom records and metadata, but neither
			// the encrypted data nor the blinding point nor
			// total_amount_msat of the blinded final hop.
			name: "like RequestRoute, no records",
			opts: f10Opts{
				likeRequestRoute: true,
			},
			minLen: 900,
			maxLen: 1300,
		},
	}

	for _, tc := range testCases {
		t.Run(tc.name, func(t *testing.T) {
			ctx := newPathFindingTestContext(
				t, true, testChannels, "start",
			)

			introVertex := ctx.keyFromAlias("intro")
			introPk, err := btcec.ParsePubKey(introVertex[:])
			require.NoError(t, err)

			var (
				numFound  int
				numFail   int
				firstFail *f10Result
				lastFail  *f10Result
				lastOK    *f10Result
			)
			for l := tc.minLen; l <= tc.maxLen; l++ {
				res, ok := f10RunOpts(
					t, ctx, introOnly(introPk, l), amt, amt,
					height, tc.opts,
				)
				if !ok {
					continue
				}
				numFound++

				require.Equal(t, res.sphinxTotal, res.real)
				require.LessOrEqual(
					t, res.estimate,
					uint64(sphinx.MaxRoutingPayloadSize),
				)

				if res.real <= sphinx.MaxRoutingPayloadSize &&
					res.onionErr == nil {

					lastOK = res
					continue
				}

				numFail++
				if firstFail == nil {
					firstFail = res
				}
				lastFail = res
			}

			require.NotZero(t, numFound)

			logRes := func(what string, res *f10Result) {
				if res == nil {
					return
				}
				t.Logf("%s: cipherLen=%d estimate=%d "+
					"(lastHopEstimate=%d) real=%d perHop=%v "+
					"onionErr=%v", what, res.cipherLen,
					res.estimate, res.lastHopEst, res.real,
					res.perHop, res.onionErr)
			}
			logRes("last route that fits", lastOK)
			logRes("first route that does not fit", firstFail)
			logRes("last route that does not fit", lastFail)

			require.Zerof(t, numFail, "pathfinding returned %d "+
				"routes (out of %d) whose real routing info "+
				"size exceeds %d / for which "+
				"sphinx.NewOnionPacket fails", numFail,
				numFound, sphinx.MaxRoutingPayloadSize)
		})
	}
}
