package contractcourt

import (
	"testing"

	"github.com/lightningnetwork/lnd/channeldb"
	"github.com/lightningnetwork/lnd/lntypes"
	"github.com/lightningnetwork/lnd/lnwire"
	"github.com/stretchr/testify/require"
)

// TestF39ReceivedDustHtlcForcesClose: the only HTLC on the channel is a RECEIVED one that is dust on the commitment (no output:
// OutputIndex -1) and whose preimage we know. It cannot be claimed on chain - there is nothing to claim - so it must not be a reason to go
// on chain ("never merely because of a received HTLC it cannot claim"). The go-to-chain scan did not look at the output index: five blocks
// before the HTLC's expiry the arbitrator force closes the channel, and then closes the HTLC out "without further action".
func TestF39ReceivedDustHtlcForcesClose(t *testing.T) {
	log := &mockArbitratorLog{
		state:     StateDefault,
		newStates: make(chan ArbitratorState, 5),
		resolvers: make(map[ContractResolver]struct{}),
	}
	chanArbCtx, err := createTestChannelArbitrator(t, log)
	require.NoError(t, err)
	chanArb := chanArbCtx.chanArb

	rHash := lntypes.Hash{7}
	preimages := newMockWitnessBeacon()
	preimages.lookupPreimage[rHash] = lntypes.Preimage{1}
	chanArb.cfg.PreimageDB = preimages

	dust := channeldb.HTLC{
		Incoming:      true,
		Amt:           lnwire.MilliSatoshi(100_000),
		HtlcIndex:     3,
		RefundTimeout: 10,
		OutputIndex:   -1,
		RHash:         rHash,
	}
	set := newHtlcSet([]channeldb.HTLC{dust})

	// Height 6 >= expiry 10 - IncomingBroadcastDelta 5 (+1).
	actions, err := chanArb.checkCommitChainActions(6, chainTrigger, set)
	require.NoError(t, err)
	require.Len(t, actions, 0, "a received dust HTLC (no output to claim) made the arbitrator decide to go on chain")
}
