package channeldb

import (
	"testing"

	"github.com/btcsuite/btcd/btcec/v2"
	"github.com/lightningnetwork/lnd/graph/db/models"
	"github.com/lightningnetwork/lnd/lnwire"
	"github.com/stretchr/testify/require"
)

// TestF15DemoAdvanceCommitChainTailFreshChannel replays, at the database
// level, the first update_fee of a channel that has never revoked a local
// commitment:
//
//	us -> peer: update_fee, commit_sig        (AppendRemoteCommitChain)
//	peer -> us: revoke_and_ack                (AdvanceCommitChainTail)
//
// The fee update is now locked in on the peer's commitment but the peer has
// not signed it back to us yet, so ReceiveRevocation hands it to
// AdvanceCommitChainTail as `updates`, to be stored under
// remoteUnsignedLocalUpdatesKey and restored after a restart. Before the fix
// the function returned early because unsignedAckedUpdatesKey is absent until
// the first local revocation (UpdateCommitment), and the update was dropped.
func TestF15DemoAdvanceCommitChainTailFreshChannel(t *testing.T) {
	fullDB, err := MakeTestDB(t)
	require.NoError(t, err)

	cdb := fullDB.ChannelStateDB()

	// A fresh channel: UpdateCommitment has never been called for it.
	channel := createTestChannel(t, cdb)

	feeUpdate := LogUpdate{
		LogIndex: 0,
		UpdateMsg: &lnwire.UpdateFee{
			ChanID:   lnwire.ChannelID(key),
			FeePerKw: 5000,
		},
	}

	// We sign a new remote commitment that includes the fee update.
	remoteCommit := channel.RemoteCommitment
	remoteCommit.CommitHeight = 1
	remoteCommit.LocalLogIndex = 1
	remoteCommit.FeePerKw = 5000
	commitDiff := &CommitDiff{
		Commitment: remoteCommit,
		CommitSig: &lnwire.CommitSig{
			ChanID:    lnwire.ChannelID(key),
			CommitSig: wireSig,
		},
		LogUpdates:        []LogUpdate{feeUpdate},
		OpenedCircuitKeys: []models.CircuitKey{},
		ClosedCircuitKeys: []models.CircuitKey{},
	}
	require.NoError(t, channel.AppendRemoteCommitChain(commitDiff))

	// The peer revokes its previous commitment.
	oldRemoteCommit := channel.RemoteCommitment
	channel.RemoteCurrentRevocation = channel.RemoteNextRevocation
	newPriv, err := btcec.NewPrivateKey()
	require.NoError(t, err)
	channel.RemoteNextRevocation = newPriv.PubKey()

	fwdPkg := NewFwdPkg(
		channel.ShortChanID(), oldRemoteCommit.CommitHeight, nil, nil,
	)

	// The fee update still awaits the peer's signature.
	localPeerUpdates := []LogUpdate{feeUpdate}
	err = channel.AdvanceCommitChainTail(
		fwdPkg, localPeerUpdates, dummyLocalOutputIndex,
		dummyRemoteOutIndex,
	)
	require.NoError(t, err)

	// What a restarted node would load.
	stored, err := channel.RemoteUnsignedLocalUpdates()
	require.NoError(t, err)

	if len(stored) != len(localPeerUpdates) {
		t.Fatalf("AdvanceCommitChainTail was given %d local update(s) "+
			"awaiting the peer's signature (update_fee %d sat/kw), "+
			"but %d are stored: the update is lost on restart",
			len(localPeerUpdates), 5000, len(stored))
	}
	require.Equal(t, feeUpdate.LogIndex, stored[0].LogIndex)
	storedFee, ok := stored[0].UpdateMsg.(*lnwire.UpdateFee)
	require.True(t, ok, "stored update is not an update_fee")
	require.EqualValues(t, 5000, storedFee.FeePerKw)
}
