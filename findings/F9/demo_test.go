package routing

import (
	"testing"

	"github.com/btcsuite/btcd/btcec/v2"
	sphinx "github.com/lightningnetwork/lightning-onion"
	"github.com/lightningnetwork/lnd/graph/db/models"
	"github.com/lightningnetwork/lnd/lnwire"
	"github.com/stretchr/testify/require"
)

// TestF9BlindedPathHtlcMaximumEnforced: the aggregate policy that pathfinding uses for the blinded
// part of a route must reject amounts above the path's htlc_maximum.
func TestF9BlindedPathHtlcMaximumEnforced(t *testing.T) {
	k := func() *btcec.PublicKey {
		p, err := btcec.NewPrivateKey()
		require.NoError(t, err)
		return p.PubKey()
	}
	bp := &BlindedPayment{
		BlindedPath: &sphinx.BlindedPath{
			IntroductionPoint: k(),
			BlindingPoint:     k(),
			BlindedHops: []*sphinx.BlindedHopInfo{
				{BlindedNodePub: k(), CipherText: []byte{1}},
				{BlindedNodePub: k(), CipherText: []byte{2}},
			},
		},
		HtlcMinimum: 1_000,
		HtlcMaximum: 50_000,
	}
	require.NoError(t, bp.Validate())

	hints, err := bp.toRouteHints()
	require.NoError(t, err)
	require.Len(t, hints, 1)

	for _, edges := range hints {
		policy := edges[0].EdgePolicy()
		u := newUnifiedEdge(policy, 0, models.InboundFee{}, nil, bp)

		require.True(t, u.amtInRange(lnwire.MilliSatoshi(50_000)))
		require.False(t, u.amtInRange(lnwire.MilliSatoshi(999)),
			"below htlc_minimum must be rejected")
		require.False(t, u.amtInRange(lnwire.MilliSatoshi(50_001)),
			"amount above the blinded path's htlc_maximum "+
				"is accepted by the pathfinder's range check")
	}
}
