#!/bin/sh
cd "$(dirname "$0")"
. ./env.sh
[ -x bin/gowp ] || ./build.sh || exit 2
exec bin/gowp replay "$1"
