#!/bin/sh
# developer helper: relock contracts, run one property verbosely, show what is not proved
cd "$(dirname "$0")"
. ./env.sh
bin/gowp lock >/dev/null
GOWP_VERBOSE=1 GOWP_DEBUG=${GOWP_DEBUG:-} bin/gowp check --property "$1" 2>&1 | grep -v "cover-ok\|proved \|^\s\+/\|^main\.\|^goroutine\|^runtime\|^panic\|^\s*$" | grep -v "escape in" | cut -c1-260 | tail -${2:-30}
