#!/bin/sh
# Build the gowp verifier offline from vendored sources.
set -e
cd "$(dirname "$0")"
. ./env.sh
cd engine
GOFLAGS=-mod=vendor go build -o ../bin/gowp .
# layoutx: lists the calls of Encode/Decode methods (input of tools/layout_gen.py; standard library only)
cd ../tools/layoutx
GOFLAGS=-mod=mod go build -o ../../bin/layoutx .
