#!/bin/sh
# Build the gowp verifier offline from vendored sources.
set -e
cd "$(dirname "$0")"
. ./env.sh
cd engine
GOFLAGS=-mod=vendor go build -o ../bin/gowp .
