#!/bin/sh
# usage: check.sh <property> [quick|thorough]
# Runs the gowp verifier for one property against /repo's current working tree.
cd "$(dirname "$0")"
. ./env.sh
[ -x bin/gowp ] || ./build.sh || exit 2
tier="${2:-${VERIF_TIER:-quick}}"
exec bin/gowp check --property "$1" --tier "$tier"
