#!/bin/sh
# Build the verifier offline and warm the Go build cache for the packages under contract.
set -e
cd "$(dirname "$0")"
. ./env.sh
./build.sh
# warm export data for the packages the checks load (cold cache costs minutes once)
pkgs=$(cd /repo && find . -name zz_verif_contracts.go -not -path './tlv/*' | xargs -n1 dirname | sort -u)
if [ -n "$pkgs" ]; then
  (cd /repo && GOMAXPROCS=8 go build -tags verif $pkgs github.com/lightningnetwork/lnd/fn/v2) || true
fi
if [ -f /repo/tlv/zz_verif_contracts.go ]; then
  (cd /repo/tlv && GOMAXPROCS=8 go build -tags verif .) || true
fi
git -C /verif diff --quiet -- contracts.lock 2>/dev/null || echo "note: contracts.lock differs from the committed one"
echo setup done
