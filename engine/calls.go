package main

import (
	"fmt"
	"go/types"
	"sort"
	"strings"

	"golang.org/x/tools/go/ssa"
)

type callSite struct {
	instr   ssa.Instruction
	common  *ssa.CallCommon
	static  *ssa.Function
	fv      *FuncV
	invoke  bool
	key     string // contract key
	name    string // simple name for ret()/site matching
	args    []Val  // includes receiver first for methods/invokes
	argTyps []types.Type
	rt      types.Type // result type (tuple or single or nil)
	sig     *types.Signature
}

func funcKey(fn *ssa.Function) string {
	if o := fn.Origin(); o != nil {
		fn = o
	}
	return fn.String()
}

func (e *Enc) resultType(sig *types.Signature) types.Type {
	switch sig.Results().Len() {
	case 0:
		return nil
	case 1:
		return sig.Results().At(0).Type()
	}
	return sig.Results()
}

func (e *Enc) buildCallSite(fr *Frame, instr ssa.Instruction, c *ssa.CallCommon) *callSite {
	cs := &callSite{instr: instr, common: c, sig: c.Signature()}
	cs.rt = e.resultType(cs.sig)
	if c.IsInvoke() {
		cs.invoke = true
		cs.key = "(" + typeKey(c.Value.Type()) + ")." + c.Method.Name()
		cs.name = c.Method.Name()
	} else if fn := c.StaticCallee(); fn != nil {
		cs.static = fn
		cs.key = funcKey(fn)
		cs.name = fn.Name()
		if o := fn.Origin(); o != nil {
			cs.name = o.Name()
		}
		cs.name = strings.TrimSuffix(cs.name, "$bound")
	} else if _, ok := c.Value.(*ssa.Builtin); ok {
		cs.name = c.Value.Name()
	} else {
		// dynamic call through a function value
		cs.name = dynCalleeName(c.Value)
	}
	return cs
}

// dynCalleeName: for calls through func-typed fields/variables, the field or variable name.
func dynCalleeName(v ssa.Value) string {
	switch x := v.(type) {
	case *ssa.UnOp:
		if g, ok := x.X.(*ssa.Global); ok {
			return g.Name() // call through a package-level function variable
		}
		if fa, ok := x.X.(*ssa.FieldAddr); ok {
			st := fa.X.Type().Underlying().(*types.Pointer).Elem().Underlying().(*types.Struct)
			return st.Field(fa.Field).Name()
		}
		if al, ok := x.X.(*ssa.Alloc); ok {
			return al.Comment
		}
		if fv, ok := x.X.(*ssa.FreeVar); ok {
			return fv.Name()
		}
	case *ssa.Field:
		st := x.X.Type().Underlying().(*types.Struct)
		return st.Field(x.Field).Name()
	case *ssa.Parameter:
		return x.Name()
	case *ssa.FreeVar:
		return x.Name()
	case *ssa.MakeClosure:
		return x.Fn.Name()
	case *ssa.Phi:
		return x.Comment
	}
	return v.Name()
}

func (e *Enc) evalArgs(fr *Frame, cs *callSite) {
	c := cs.common
	if cs.invoke || (cs.static == nil && cs.fv == nil) {
		if cs.invoke {
			cs.args = append(cs.args, e.val(fr, c.Value))
			cs.argTyps = append(cs.argTyps, c.Value.Type())
		}
	}
	for _, a := range c.Args {
		cs.args = append(cs.args, e.val(fr, a))
		cs.argTyps = append(cs.argTyps, a.Type())
	}
}

func (e *Enc) call(fr *Frame, instr ssa.Instruction, c *ssa.CallCommon, _ types.Type) Val {
	cs := e.buildCallSite(fr, instr, c)
	if _, ok := c.Value.(*ssa.Builtin); ok {
		if e.fc != nil && len(e.fc.Sites) > 0 {
			e.evalArgs(fr, cs)
			cs.sig = nil
			e.siteCall(fr, cs, true)
		}
		r := e.builtin(fr, instr, c)
		if fr.isTop && r != nil {
			if v, ok := instr.(ssa.Value); ok {
				e.bindCallResult(fr, instr, TV{V: r, Typ: v.Type()})
			}
		}
		return r
	}
	if !cs.invoke {
		if _, isFn := c.Value.(*ssa.Function); !isFn {
			if fv, ok := e.val(fr, c.Value).(*FuncV); ok && fv.Fn != nil {
				cs.fv = fv
				cs.static = fv.Fn
				cs.key = funcKey(fv.Fn)
			}
		}
	}
	// effect-free callees: no argument evaluation at all
	if e.eng.isEffectFree(cs.key) {
		e.assumpEffectFree[cs.key] = true
		matched := false
		if e.fc != nil {
			for i := range e.fc.Sites {
				if e.siteMatchesCall(&e.fc.Sites[i], cs) {
					matched = true
				}
			}
		}
		if matched {
			e.evalArgs(fr, cs)
		}
		e.siteCall(fr, cs, matched)
		r := e.effectFreeResult(fr, cs)
		if fr.isTop && r != nil {
			e.recordRet(cs, r)
		}
		return r
	}
	e.evalArgs(fr, cs)
	e.siteCall(fr, cs, true)
	r := e.dispatch(fr, cs)
	if fr.isTop && r != nil {
		e.recordRet(cs, r)
	} else if fr.isTop {
		e.recordRet(cs, nil)
	}
	if fr.isTop || e.definedIn(fr.fn, e.fn) {
		if k := "ghost:called:" + cs.name; e.keySorts[k] != "" {
			e.get(fr.curState, k, SBool)
			fr.curState.m[k] = True
		}
		if fr.isTop && cs.instr != nil {
			for i, in := range e.callsNamed(cs.name) {
				if in != cs.instr {
					continue
				}
				if k := fmt.Sprintf("ghost:called:%s#%d", cs.name, i); e.keySorts[k] != "" {
					e.get(fr.curState, k, SBool)
					fr.curState.m[k] = True
				}
			}
		}
	}
	return r
}

func (e *Enc) recordRet(cs *callSite, r Val) {
	if r == nil || cs.instr == nil {
		return
	}
	e.bindCallResult(e.top, cs.instr, TV{V: r, Typ: cs.rt})
}

// bindCallResult records the value of a call instruction of the top function; if a contract
// expression already referred to it (ret() ahead of the encoding order) the placeholder is
// identified with the real value.
func (e *Enc) bindCallResult(fr *Frame, instr ssa.Instruction, tv TV) {
	if pre, ok := e.callResultPre[instr]; ok && tv.Typ != nil {
		e.s.Assume(Imp(fr.curReach, e.eqVal(pre.V, tv.V, tv.Typ)))
	}
	e.callResult[instr] = tv
}

// callsNamed lists the call instructions of the top function (by source position) whose callee
// has the given simple name.
func (e *Enc) callsNamed(name string) []ssa.Instruction {
	if e.callIndex == nil {
		e.callIndex = map[string][]ssa.Instruction{}
		for _, b := range e.fn.Blocks {
			for _, in := range b.Instrs {
				ci, ok := in.(ssa.CallInstruction)
				if !ok {
					continue
				}
				if _, isGo := in.(*ssa.Go); isGo {
					continue
				}
				if e.logOnlyCall(in) {
					// a call whose result only feeds a log statement has no ordinal: adding or
					// removing log lines must not renumber the calls contracts refer to
					continue
				}
				cs := e.buildCallSite(nil, in, ci.Common())
				e.callIndex[cs.name] = append(e.callIndex[cs.name], in)
			}
		}
		for _, l := range e.callIndex {
			sort.SliceStable(l, func(i, j int) bool { return l[i].Pos() < l[j].Pos() })
		}
	}
	return e.callIndex[name]
}

// retValue: value of the k-th (by source position) call to name in the top function.
func (e *Enc) retValue(name string, k int) (TV, bool) {
	calls := e.callsNamed(name)
	if k >= len(calls) {
		return TV{}, false
	}
	in := calls[k]
	if tv, ok := e.callResult[in]; ok {
		return tv, true
	}
	if tv, ok := e.callResultPre[in]; ok {
		return tv, true
	}
	v, ok := in.(ssa.Value)
	if !ok {
		return TV{}, false
	}
	t := v.Type()
	if tt, isT := t.(*types.Tuple); isT && tt.Len() == 0 {
		return TV{}, false
	}
	tv := TV{V: e.fresh(t, "retpre:"+name), Typ: t}
	e.callResultPre[in] = tv
	return tv, true
}

func (e *Enc) effectFreeResult(fr *Frame, cs *callSite) Val {
	if cs.rt == nil {
		return nil
	}
	r := e.fresh(cs.rt, "ef:"+cs.name)
	if e.eng.nonNilResult[cs.key] {
		if iv, ok := r.(*IfaceV); ok {
			e.s.Assume(Not(Eq(iv.Tag, IntLit(0))))
		}
	}
	return r
}

func (e *Enc) onStack(fr *Frame, fn *ssa.Function) bool {
	for f := fr; f != nil; f = f.parent {
		if f.fn == fn {
			return true
		}
	}
	return false
}

func (e *Enc) pkgPath() string {
	if e.pkg != nil && e.pkg.Pkg != nil {
		return e.pkg.Pkg.PkgPath
	}
	return ""
}

func (e *Enc) dispatch(fr *Frame, cs *callSite) Val {
	if cs.static != nil {
		fn := cs.static
		fc := e.eng.contractAt(e.pkgPath(), cs.key)
		hasBody := len(fn.Blocks) > 0
		if fc != nil && !(fc.Inline && hasBody) {
			return e.contractCall(fr, cs, fc)
		}
		if hasBody && fr.depth < 10 && !e.onStack(fr, fn) {
			if cs.fv != nil || fn.Parent() != nil || (fc != nil && fc.Inline) || e.eng.inlinePkg(fn) || fn.Synthetic != "" && strings.Contains(fn.Synthetic, "bound method") {
				return e.inlineCall(fr, cs)
			}
		}
		if hasBody {
			return e.framedCall(fr, cs)
		}
		return e.opaqueCallCS(fr, cs, "no body")
	}
	if cs.invoke {
		if fc := e.eng.contractAt(e.pkgPath(), cs.key); fc != nil {
			return e.contractCall(fr, cs, fc)
		}
		// statically known dynamic type: devirtualise
		if iv, ok := cs.args[0].(*IfaceV); ok && iv.Dyn != nil && iv.Boxed != nil {
			if m := e.eng.findMethod(iv.Dyn, cs.common.Method.Name()); m != nil {
				ncs := *cs
				ncs.invoke = false
				ncs.static = m
				ncs.key = funcKey(m)
				ncs.args = append([]Val{iv.Boxed}, cs.args[1:]...)
				ncs.argTyps = append([]types.Type{iv.Dyn}, cs.argTyps[1:]...)
				// receiver adjustment (value vs pointer) is left to the callee encoding
				if sameRecvKind(m, iv.Dyn) {
					return e.dispatch(fr, &ncs)
				}
			}
		}
		return e.opaqueCallCS(fr, cs, "interface method")
	}
	// dynamic call of an unknown function value
	cs.args = append([]Val{}, cs.args...)
	return e.opaqueCallCS(fr, cs, "function value")
}

func sameRecvKind(m *ssa.Function, dyn types.Type) bool {
	r := m.Signature.Recv()
	if r == nil {
		return false
	}
	_, wantPtr := under(r.Type()).(*types.Pointer)
	_, havePtr := under(dyn).(*types.Pointer)
	return wantPtr == havePtr
}

// ---------------------------------------------------------------------------------------------
// inlining

func (e *Enc) inlineCall(fr *Frame, cs *callSite) Val {
	fn := cs.static
	nf := e.newFrame(fn, fr)
	if cs.fv != nil {
		nf.bind = cs.fv.Bind
	}
	if len(cs.args) != len(fn.Params) {
		panic(fmt.Sprintf("inline %s: %d args for %d params", fn, len(cs.args), len(fn.Params)))
	}
	for i, p := range fn.Params {
		nf.vals[p] = cs.args[i]
	}
	e.encodeBody(nf, fr.curReach, fr.curState)
	fr.panics = append(fr.panics, nf.panics...)
	return e.joinReturns(fr, nf, cs.rt)
}

// joinReturns merges the return points of an inlined frame into the caller's position.
func (e *Enc) joinReturns(fr *Frame, nf *Frame, rt types.Type) Val {
	if len(nf.rets) == 0 {
		fr.curReach = False
		if rt == nil {
			return nil
		}
		return e.fresh(rt, "noret")
	}
	var conds []T
	var sts []*State
	for _, r := range nf.rets {
		conds = append(conds, r.reach)
		sts = append(sts, r.state)
	}
	tag := fmt.Sprintf("ret:%s", nf.fn.Name())
	fr.curReach = e.s.Define("reach:"+tag, Or(conds...))
	fr.curState = e.mergeStates(conds, sts, tag)
	if rt == nil {
		return nil
	}
	var res Val
	for k := len(nf.rets) - 1; k >= 0; k-- {
		var v Val
		if tt, ok := rt.(*types.Tuple); ok {
			_ = tt
			v = &TupleV{E: nf.rets[k].vals}
		} else {
			v = nf.rets[k].vals[0]
		}
		if res == nil {
			res = v
		} else {
			res = e.iteVal(conds[k], v, res, rt)
		}
	}
	return e.nameVal(res, rt, tag)
}

// pureInline evaluates a loop-free, store-free function on the given arguments in state st.
func (e *Enc) pureInline(fn *ssa.Function, args []Val, st *State) (Val, types.Type) {
	nf := e.newFrame(fn, e.top)
	if len(nf.loops) > 0 {
		panic(contractPanic{"method " + fn.String() + " has loops: cannot be used in a contract"})
	}
	for i, p := range fn.Params {
		nf.vals[p] = args[i]
	}
	saveObl := e.pass
	// obligations inside pure evaluation are not generated
	e.pass = 3
	e.writeLogs = append(e.writeLogs, map[string]bool{})
	e.loopLogOwner = append(e.loopLogOwner, nil)
	e.encodeBody(nf, True, st)
	log := e.writeLogs[len(e.writeLogs)-1]
	e.writeLogs = e.writeLogs[:len(e.writeLogs)-1]
	e.loopLogOwner = e.loopLogOwner[:len(e.loopLogOwner)-1]
	e.pass = saveObl
	for k := range log {
		if !strings.HasPrefix(k, "c:") {
			panic(contractPanic{"method " + fn.String() + " writes " + k + ": not pure"})
		}
	}
	rt := e.resultType(fn.Signature)
	tmp := &Frame{curReach: True, curState: st}
	res := e.joinReturns(tmp, nf, rt)
	return res, rt
}

// ---------------------------------------------------------------------------------------------
// contract calls

func (e *Enc) paramNames(cs *callSite, fc *FuncContract) []string {
	var names []string
	if cs.sig == nil {
		for i := range cs.args {
			names = append(names, fmt.Sprintf("a%d", i))
		}
		return names
	}
	if cs.static != nil {
		for _, p := range cs.static.Params {
			names = append(names, p.Name())
		}
		if fc != nil && fc.RecvName != "" && cs.static.Signature.Recv() != nil && len(names) > 0 {
			names[0] = fc.RecvName
		}
		if len(cs.static.Params) == 0 {
			// no body: use signature names
			names = nil
			if r := cs.sig.Recv(); r != nil {
				n := r.Name()
				if fc != nil && fc.RecvName != "" {
					n = fc.RecvName
				}
				names = append(names, n)
			}
			for i := 0; i < cs.sig.Params().Len(); i++ {
				names = append(names, cs.sig.Params().At(i).Name())
			}
		}
	} else {
		if cs.invoke {
			n := "recv"
			if fc != nil && fc.RecvName != "" {
				n = fc.RecvName
			}
			names = append(names, n)
		}
		for i := 0; i < cs.sig.Params().Len(); i++ {
			names = append(names, cs.sig.Params().At(i).Name())
		}
	}
	if fc != nil && len(fc.ParamNames) > 0 {
		off := len(names) - len(fc.ParamNames)
		if off >= 0 {
			for i, n := range fc.ParamNames {
				names[off+i] = n
			}
		}
	}
	return names
}

func (e *Enc) contractCall(fr *Frame, cs *callSite, fc *FuncContract) Val {
	names := e.paramNames(cs, fc)
	params := map[string]TV{}
	for i, n := range names {
		if i < len(cs.args) && n != "" && n != "_" {
			params[n] = TV{V: cs.args[i], Typ: cs.argTyps[i]}
		}
	}
	var pkg *types.Package
	if lp := e.eng.pkgByPath[fc.PkgPath]; lp != nil {
		pkg = lp.Pkg.Types
	}
	pre := fr.curState
	ctx := &ExprCtx{e: e, st: pre, old: pre, params: params, pkg: pkg, fc: fc}
	short := shortKey(cs.key)
	for i, rq := range fc.Requires {
		g := e.safeBool(ctx, rq, "requires of "+short)
		e.addObligation("pre", fmt.Sprintf("%s#%d", short, i), fr.curReach, g, "precondition of "+short+": "+rq.Text)
	}
	if fc.Extern || fc.Trusted {
		e.note("assumed contract (not verified here): " + short)
		if fc.Extern {
			e.usedExterns[cs.key] = fc
		}
	}
	// frame
	post := pre.clone()
	fr.curState = post
	switch {
	case fc.ModGiven:
		for _, m := range fc.Modifies {
			e.havocLvalue(ctx, post, m)
		}
	case fc.Extern:
		// extern contracts without a modifies clause modify nothing visible
	case cs.static != nil && len(cs.static.Blocks) > 0:
		e.applyModSet(fr, e.eng.modSetOf(cs.static), cs)
	default:
		e.havocByTypes(fr, cs)
	}
	e.closureArgEffects(fr, cs)
	var res Val
	var results []TV
	if cs.rt != nil {
		res = e.fresh(cs.rt, "r:"+cs.name)
		if tv, ok := res.(*TupleV); ok {
			tt := cs.rt.(*types.Tuple)
			for i, x := range tv.E {
				results = append(results, TV{V: x, Typ: tt.At(i).Type()})
			}
		} else {
			results = []TV{{V: res, Typ: cs.rt}}
		}
	}
	resNames := map[string]int{}
	for i := 0; i < cs.sig.Results().Len(); i++ {
		if n := cs.sig.Results().At(i).Name(); n != "" {
			resNames[n] = i
		}
	}
	pctx := &ExprCtx{e: e, st: post, old: pre, params: params, pkg: pkg, results: results, resNames: resNames, fc: fc}
	for _, en := range fc.Ensures {
		if clauseInternal(fc, en.Expr, 0) {
			continue // postcondition about the callee's internal calls: not visible to callers
		}
		g := e.safeBool(pctx, en, "ensures of "+short)
		e.s.Assume(Imp(fr.curReach, g))
	}
	return res
}

func shortKey(k string) string {
	// strip package paths for display
	out := k
	for {
		i := strings.LastIndex(out, "/")
		if i < 0 {
			break
		}
		// remove path up to the previous delimiter
		j := i
		for j > 0 && !strings.ContainsRune("(*[ ,", rune(out[j-1])) {
			j--
		}
		out = out[:j] + out[i+1:]
	}
	return out
}

func (e *Enc) safeBool(ctx *ExprCtx, c Clause, what string) (t T) {
	defer func() {
		if r := recover(); r != nil {
			if cp, ok := r.(contractPanic); ok {
				panic(fmt.Sprintf("contract error in %s (%s): %s", what, c.Text, cp.msg))
			}
			panic(r)
		}
	}()
	return ctx.boolExpr(c.Expr)
}

// havocLvalue: modifies clause element. Supports x.f (field of pointer), *p, x[i], and whole
// objects (all fields of the struct pointed to).
func (e *Enc) havocLvalue(ctx *ExprCtx, st *State, m Clause) {
	switch x := m.Expr.(type) {
	case CSel:
		base := ctx.expr(x.X)
		if base.Typ == nil {
			panic("modifies: untyped base in " + m.Text)
		}
		pt, ok := under(base.Typ).(*types.Pointer)
		if !ok {
			panic("modifies: base is not a pointer in " + m.Text)
		}
		path := fieldPath(pt.Elem(), x.Sel)
		if path == nil {
			panic("modifies: no such field in " + m.Text)
		}
		a := e.asPtr(base.V, base.Typ).A
		cur := pt.Elem()
		for k, idx := range path {
			su := under(cur).(*types.Struct)
			ft := su.Field(idx).Type()
			if k == len(path)-1 {
				e.store(st, e.fieldAddr(a, cur, idx), ft, e.fresh(ft, "mod:"+x.Sel))
				return
			}
			a = e.fieldAddr(a, cur, idx)
			cur = ft
		}
	case CUn:
		if x.Op == "*" {
			base := ctx.expr(x.X)
			pt := under(base.Typ).(*types.Pointer)
			a := e.asPtr(base.V, base.Typ).A
			e.store(st, a, pt.Elem(), e.fresh(pt.Elem(), "mod:deref"))
			return
		}
	case CCall:
		// map(m): the contents (entries, length) of the map object m refers to
		if id, ok := x.Fun.(CIdent); ok && id.Name == "mapof" && len(x.Args) == 1 {
			mv := ctx.expr(x.Args[0])
			if _, isMap := under(mv.Typ).(*types.Map); !isMap {
				panic("modifies mapof(x): x is not a map in " + m.Text)
			}
			ref := e.scalar(mv.V)
			tk := typeKey(mv.Typ)
			for _, k := range sortedKeys(e.keySorts) {
				if k == "md:"+tk || k == "ml:"+tk || k == "mv:"+tk || strings.HasPrefix(k, "mv:"+tk+".") {
					arr := e.get(st, k, e.keySorts[k])
					e.noteWrite(k)
					st.m[k] = e.s.Define("st:"+k, Store(arr, ref, e.s.Const("mod:map", arrElemSort(e.keySorts[k]))))
				}
			}
			return
		}
	case CIdent:
		// a pointer parameter: everything it points to (one level)
		base := ctx.expr(x)
		if pt, ok := under(base.Typ).(*types.Pointer); ok {
			a := e.asPtr(base.V, base.Typ).A
			e.store(st, a, pt.Elem(), e.fresh(pt.Elem(), "mod:"+x.Name))
			return
		}
	}
	panic("unsupported modifies clause: " + m.Text)
}

// ---------------------------------------------------------------------------------------------
// frames for callees without contract

type ModSet struct {
	keys     map[string]bool // exact key prefixes (f:S.field, p:T, e:T, g:name, md:/mv:/ml: map type)
	structs  map[string]bool // all fields of these struct types
	all      bool
}

func newModSet() *ModSet {
	return &ModSet{keys: map[string]bool{}, structs: map[string]bool{}}
}

func (m *ModSet) union(o *ModSet) {
	for k := range o.keys {
		m.keys[k] = true
	}
	for k := range o.structs {
		m.structs[k] = true
	}
	m.all = m.all || o.all
}

func (m *ModSet) matches(key string) bool {
	if m.all {
		return !strings.HasPrefix(key, "c:") && !strings.HasPrefix(key, "ghost:")
	}
	for k := range m.keys {
		if key == k || strings.HasPrefix(key, k) && (len(key) == len(k) || key[len(k)] == '.') {
			return true
		}
	}
	if strings.HasPrefix(key, "f:") {
		for s := range m.structs {
			if strings.HasPrefix(key, "f:"+s+".") {
				return true
			}
		}
	}
	return false
}

// reachTypes collects what an opaque callee may write given a static argument type.
func reachTypes(t types.Type, viaPtr bool, m *ModSet, seen map[string]bool) {
	k := typeKey(t)
	if viaPtr {
		k = "*" + k
	}
	if seen[k] {
		return
	}
	seen[k] = true
	switch u := under(t).(type) {
	case *types.Pointer:
		reachTypes(u.Elem(), true, m, seen)
	case *types.Struct:
		if viaPtr {
			m.structs[typeKey(t)] = true
		}
		for i := 0; i < u.NumFields(); i++ {
			ft := u.Field(i).Type()
			reachTypes(ft, viaPtr && isInPlace(ft), m, seen)
		}
	case *types.Slice:
		m.keys["e:"+typeKey(u.Elem())] = true
		reachTypes(u.Elem(), true, m, seen)
	case *types.Array:
		if viaPtr {
			m.keys["p:"+typeKey(t)] = true
		}
		reachTypes(u.Elem(), viaPtr, m, seen)
	case *types.Map:
		m.keys["md:"+typeKey(t)] = true
		m.keys["mv:"+typeKey(t)] = true
		m.keys["ml:"+typeKey(t)] = true
		reachTypes(u.Key(), true, m, seen)
		reachTypes(u.Elem(), true, m, seen)
	case *types.Chan:
		reachTypes(u.Elem(), true, m, seen)
	case *types.Basic:
		if viaPtr {
			m.keys["p:"+typeKey(t)] = true
		}
	case *types.Interface, *types.Signature:
		if viaPtr {
			m.keys["p:"+typeKey(t)] = true
		}
	}
}

// isInPlace: a field that is stored inside its parent (so writable when the parent is).
func isInPlace(t types.Type) bool {
	switch under(t).(type) {
	case *types.Struct, *types.Array:
		return true
	}
	return false
}

func (e *Enc) havocByTypes(fr *Frame, cs *callSite) {
	m := newModSet()
	seen := map[string]bool{}
	for i, t := range cs.argTyps {
		if cs.invoke && i == 0 {
			continue // interface receiver: A-frame (iii)
		}
		reachTypes(t, false, m, seen)
	}
	e.applyMod(fr, m)
	e.cellArgEffects(fr, cs)
}

func (e *Enc) applyMod(fr *Frame, m *ModSet) {
	for _, k := range sortedKeys(e.keySorts) {
		if m.matches(k) {
			e.get(fr.curState, k, e.keySorts[k])
			e.havocKey(fr.curState, k, "call")
		}
	}
}

func (e *Enc) applyModSet(fr *Frame, m *ModSet, cs *callSite) {
	e.applyMod(fr, m)
	e.cellArgEffects(fr, cs)
}

// cellArgEffects: locals whose address is handed to a non-inlined callee may be overwritten.
func (e *Enc) cellArgEffects(fr *Frame, cs *callSite) {
	// locals whose boxed address was stored in memory (varargs arrays of interfaces, fields of
	// interface type): anything that can reach that memory may write them; type reachability
	// cannot see through the interface, so they are havocked at every non-inlined call.
	for _, p := range e.published {
		e.store(fr.curState, Addr{Kind: ARef, Base: p.ref}, p.typ, e.fresh(p.typ, "published"))
	}
	boxed := false
	var visit func(v Val)
	visit = func(v Val) {
		switch x := v.(type) {
		case *PtrV:
			switch x.A.Kind {
			case ARef:
				if boxed && x.Elem != nil {
					// a heap pointer hidden in an interface argument: the static argument type
					// does not reveal it to the type-reachability frame
					e.store(fr.curState, x.A, x.Elem, e.fresh(x.Elem, "boxedptr"))
				}
			case ACell:
				e.havocCell(fr.curState, x.A.Cell)
			case AField, AElem, AGlobal:
				// the address of a field / element / global handed to the callee: it may be
				// written through (also when boxed into an interface argument)
				if x.Elem != nil {
					e.store(fr.curState, x.A, x.Elem, e.fresh(x.Elem, "ptrarg"))
				}
			}
		case *SliceV:
			if x.FromCell != nil {
				e.havocCell(fr.curState, x.FromCell)
			}
			if info, ok := e.arrViews[x.Base.S]; ok {
				// a view of a heap-resident array: the callee may overwrite the array
				e.store(fr.curState, info.addr, info.typ, e.fresh(info.typ, "viewhv"))
			}
		case *IfaceV:
			if x.Boxed != nil {
				was := boxed
				boxed = true
				visit(x.Boxed)
				boxed = was
			}
		case *StructV:
			for _, f := range x.F {
				visit(f)
			}
		}
	}
	for _, a := range cs.args {
		visit(a)
	}
}

func (e *Enc) havocCell(st *State, c *Cell) {
	prefix := fmt.Sprintf("c:%d", c.ID)
	for _, k := range sortedKeys(e.keySorts) {
		if k == prefix || strings.HasPrefix(k, prefix+".") {
			if _, ok := st.m[k]; ok {
				e.havocKey(st, k, "cell passed to callee")
			}
		}
	}
}

// closureArgEffects: closures handed to a non-inlined callee may be run by it (any number of times).
func (e *Enc) closureArgEffects(fr *Frame, cs *callSite) {
	var fvs []*FuncV
	var visit func(v Val)
	visit = func(v Val) {
		switch x := v.(type) {
		case *FuncV:
			if x.Fn != nil && len(x.Fn.Blocks) > 0 {
				fvs = append(fvs, x)
			}
		case *IfaceV:
			if x.Boxed != nil {
				visit(x.Boxed)
			}
		case *StructV:
			for _, f := range x.F {
				visit(f)
			}
		}
	}
	for _, a := range cs.args {
		visit(a)
	}
	fvs = append(fvs, e.closureEffects...)
	for _, fv := range fvs {
		e.applyClosureEffects(fr, fv)
	}
}

func (e *Enc) applyClosureEffects(fr *Frame, fv *FuncV) {
	m := e.eng.modSetOf(fv.Fn)
	e.applyMod(fr, m)
	// captured cells written by the closure body
	for i, b := range fv.Bind {
		pv, ok := b.(*PtrV)
		if !ok || pv.A.Kind != ACell {
			continue
		}
		if e.eng.writesFreeVar(fv.Fn, i) {
			e.havocCell(fr.curState, pv.A.Cell)
		}
	}
}

func (e *Enc) framedCall(fr *Frame, cs *callSite) Val {
	e.note("callee without contract, inferred frame: " + shortKey(cs.key))
	e.applyModSet(fr, e.eng.modSetOf(cs.static), cs)
	e.closureArgEffects(fr, cs)
	if cs.rt == nil {
		return nil
	}
	return e.fresh(cs.rt, "r:"+cs.name)
}

func (e *Enc) opaqueCallCS(fr *Frame, cs *callSite, why string) Val {
	e.note("opaque call (A-frame): " + shortKey(e.csDisplay(cs)))
	e.havocByTypes(fr, cs)
	e.closureArgEffects(fr, cs)
	if cs.rt == nil {
		return nil
	}
	return e.fresh(cs.rt, "r:"+cs.name)
}

func (e *Enc) csDisplay(cs *callSite) string {
	if cs.key != "" {
		return cs.key
	}
	return "dynamic:" + cs.name
}

// opaqueCall is used for go statements.
func (e *Enc) opaqueCall(fr *Frame, c *ssa.CallCommon, _ types.Type, why string) {
	cs := e.buildCallSite(fr, nil, c)
	if e.eng.isEffectFree(cs.key) {
		return
	}
	e.evalArgs(fr, cs)
	if cs.static != nil && len(cs.static.Blocks) > 0 {
		e.applyModSet(fr, e.eng.modSetOf(cs.static), cs)
		// captured cells
		if fv, ok := e.val(fr, c.Value).(*FuncV); ok && fv.Fn != nil {
			e.applyClosureEffects(fr, fv)
		}
	} else {
		if fv, ok := e.val(fr, c.Value).(*FuncV); ok && fv.Fn != nil {
			e.applyClosureEffects(fr, fv)
		}
		e.havocByTypes(fr, cs)
	}
	e.closureArgEffects(fr, cs)
}

// ---------------------------------------------------------------------------------------------
// builtins

func (e *Enc) builtin(fr *Frame, instr ssa.Instruction, c *ssa.CallCommon) Val {
	name := c.Value.Name()
	arg := func(i int) Val { return e.val(fr, c.Args[i]) }
	switch name {
	case "len", "cap":
		v := arg(0)
		switch u := under(c.Args[0].Type()).(type) {
		case *types.Slice:
			if name == "len" {
				return v.(*SliceV).Len
			}
			return v.(*SliceV).Cap
		case *types.Array:
			return IntLit(u.Len())
		case *types.Pointer:
			return IntLit(under(u.Elem()).(*types.Array).Len())
		case *types.Basic:
			f := e.s.DeclareFun("strlen", []string{SInt}, SInt)
			r := e.s.Define("len", App(SInt, f, v.(T)))
			if !e.rangeSeen[r.S] {
				e.rangeSeen[r.S] = true
				e.s.Assume(Ge(r, IntLit(0)))
			}
			return r
		case *types.Map:
			lk := "ml:" + typeKey(c.Args[0].Type())
			arr := e.get(fr.curState, lk, arrSort(SInt, SInt))
			r := Select(arr, e.scalar(v))
			if !e.rangeSeen[r.S] {
				e.rangeSeen[r.S] = true
				e.s.Assume(Ge(r, IntLit(0)))
			}
			return r
		default:
			r := e.s.Const("len", SInt)
			e.s.Assume(Ge(r, IntLit(0)))
			return r
		}
	case "append":
		return e.appendBuiltin(fr, instr, c)
	case "copy":
		dst := arg(0).(*SliceV)
		var srcLen T
		if sv, ok := arg(1).(*SliceV); ok {
			srcLen = sv.Len
		} else {
			f := e.s.DeclareFun("strlen", []string{SInt}, SInt)
			srcLen = App(SInt, f, arg(1).(T))
		}
		n := e.s.Define("copyn", Ite(Le(dst.Len, srcLen), dst.Len, srcLen))
		e.havocSliceStorage(fr, dst)
		return n
	case "delete":
		e.mapDelete(fr, arg(0), c.Args[0].Type(), arg(1))
		return nil
	case "panic":
		fr.panics = append(fr.panics, fr.curReach)
		fr.curReach = False
		return nil
	case "print", "println":
		return nil
	case "recover":
		return e.fresh(types.NewInterfaceType(nil, nil), "recover")
	case "close":
		return nil
	case "min", "max":
		a := arg(0).(T)
		for i := 1; i < len(c.Args); i++ {
			b := arg(i).(T)
			if name == "min" {
				a = Ite(Le(a, b), a, b)
			} else {
				a = Ite(Ge(a, b), a, b)
			}
		}
		return e.s.Define(name, a)
	case "clear":
		return nil
	case "ssa:wrapnilchk":
		return arg(0)
	}
	e.unsupported = append(e.unsupported, "builtin "+name)
	if v, ok := instr.(ssa.Value); ok {
		return e.fresh(v.Type(), "builtin:"+name)
	}
	return nil
}

func (e *Enc) havocSliceStorage(fr *Frame, sv *SliceV) {
	if sv.FromCell != nil {
		// a window [off, off+len) of a local array with literal bounds: the elements outside the
		// window keep their values
		if off, ok := litValue(sv.Off); ok && off.IsInt64() {
			if n, ok2 := litValue(sv.Len); ok2 && n.IsInt64() && sv.CellPath == "" {
				if at, ok3 := under(sv.FromCell.Typ).(*types.Array); ok3 && at.Len() <= 64 && len(leavesOf(sv.Elem)) == 1 {
					lf := leavesOf(sv.Elem)[0]
					ck := fmt.Sprintf("c:%d%s", sv.FromCell.ID, lf.path)
					if old, ok4 := fr.curState.m[ck]; ok4 {
						nw := e.s.Const("copied", old.Sort)
						for i := int64(0); i < at.Len(); i++ {
							if i < off.Int64() || i >= off.Int64()+n.Int64() {
								nw = Store(nw, IntLit(i), Select(old, IntLit(i)))
							}
						}
						e.noteWrite(ck)
						fr.curState.m[ck] = e.s.Define("st:"+ck, nw)
						return
					}
				}
			}
		}
		e.havocCell(fr.curState, sv.FromCell)
		return
	}
	prefix := "e:" + typeKey(sv.Elem)
	for _, k := range sortedKeys(e.keySorts) {
		if k == prefix || strings.HasPrefix(k, prefix+".") {
			arr := e.get(fr.curState, k, e.keySorts[k])
			e.noteWrite(k)
			fr.curState.m[k] = e.s.Define("st:"+k, Store(arr, sv.Base, e.s.Const("copied", arrElemSort(e.keySorts[k]))))
		}
	}
}

// append(s, t...): result has fresh storage holding s's elements followed by t's (modelled
// exactly when t is a slice of a local array of statically known length, else elementwise unknown).
func (e *Enc) appendBuiltin(fr *Frame, instr ssa.Instruction, c *ssa.CallCommon) Val {
	s := e.val(fr, c.Args[0]).(*SliceV)
	st := fr.curState
	el := s.Elem
	var addLen T
	tv, isSlice := e.val(fr, c.Args[1]).(*SliceV)
	if isSlice {
		addLen = tv.Len
	} else {
		f := e.s.DeclareFun("strlen", []string{SInt}, SInt)
		addLen = App(SInt, f, e.val(fr, c.Args[1]).(T))
	}
	base := e.newAllocRef("append")
	newLen := e.s.Define("applen", Add(s.Len, addLen))
	ncap := e.s.Const("appcap", SInt)
	e.s.Assume(Ge(ncap, newLen))
	res := &SliceV{Base: base, Off: s.Off, Len: newLen, Cap: ncap, Elem: el}
	if _, isStruct := under(el).(*types.Struct); isStruct {
		// element objects: contents of the result are not tracked
		e.note("append of struct elements in " + shortFnName(fr.fn) + ": element contents of the result are unconstrained")
		return res
	}
	for _, lf := range leavesOf(el) {
		key := "e:" + typeKey(el) + lf.path
		srt := arrSort(SInt, arrSort(SInt, lf.sort))
		arr := e.get(st, key, srt)
		content := Select(arr, s.Base)
		if s.FromCell != nil {
			// the first operand is a slice of a local array (e.g. []T{x}): its elements live in
			// the cell, not in the element heap
			if n, ok := litValue(s.Len); ok && n.IsInt64() && n.Int64() <= 8 {
				if off, ok2 := litValue(s.Off); ok2 {
					ck := fmt.Sprintf("c:%d%s%s", s.FromCell.ID, s.CellPath, lf.path)
					if carr, ok3 := st.m[ck]; ok3 {
						content = e.s.Const("appfirst", arrSort(SInt, lf.sort))
						for i := int64(0); i < n.Int64(); i++ {
							content = Store(content, IntLit(off.Int64()+i), Select(carr, IntLit(off.Int64()+i)))
						}
					}
				}
			}
		}
		known := false
		if isSlice && tv.FromCell != nil {
			if n, ok := litValue(tv.Len); ok && n.IsInt64() && n.Int64() <= 8 {
				if off, ok2 := litValue(tv.Off); ok2 {
					ck := fmt.Sprintf("c:%d%s%s", tv.FromCell.ID, tv.CellPath, lf.path)
					if carr, ok3 := st.m[ck]; ok3 {
						for i := int64(0); i < n.Int64(); i++ {
							content = Store(content, Add(Add(s.Off, s.Len), IntLit(i)), Select(carr, IntLit(off.Int64()+i)))
						}
						known = true
					}
				}
			}
		}
		if !known {
			// unknown tail: fresh array agreeing with s on [off, off+len)
			fa := e.s.Const("appended", arrSort(SInt, lf.sort))
			bv := "(|ai| Int)"
			e.s.Assume(T{fmt.Sprintf("(forall (%s) (=> (and (<= %s |ai|) (< |ai| %s)) (= (select %s |ai|) (select %s |ai|))))", bv, s.Off.S, Add(s.Off, s.Len).S, fa.S, content.S), SBool})
			content = fa
		}
		e.noteWrite(key)
		st.m[key] = e.s.Define("st:"+key, Store(arr, base, content))
	}
	return res
}

// ---------------------------------------------------------------------------------------------
// defers

func (e *Enc) deferInstr(fr *Frame, x *ssa.Defer) {
	cs := e.buildCallSite(fr, x, &x.Call)
	if e.eng.isEffectFree(cs.key) {
		return
	}
	if _, ok := x.Call.Value.(*ssa.Builtin); ok {
		return
	}
	if !cs.invoke {
		if _, isFn := x.Call.Value.(*ssa.Function); !isFn {
			if fv, ok := e.val(fr, x.Call.Value).(*FuncV); ok && fv.Fn != nil {
				cs.fv = fv
				cs.static = fv.Fn
				cs.key = funcKey(fv.Fn)
			}
		}
	}
	e.evalArgs(fr, cs)
	flag := fmt.Sprintf("ghost:defer:%d:%d", fr.depth, len(fr.defers))
	e.get(fr.curState, flag, SBool)
	fr.curState.m[flag] = True
	fr.defers = append(fr.defers, deferRec{instr: x, block: fr.curB, flag: flag, cs: cs})
}

func (e *Enc) runDefers(fr *Frame) {
	for i := len(fr.defers) - 1; i >= 0; i-- {
		d := fr.defers[i]
		run := func() {
			e.siteCall(fr, d.cs, true)
			e.dispatch(fr, d.cs)
		}
		if d.block.Dominates(fr.curB) && fr.loops[d.block] == nil && !inAnyLoop(fr, d.block) {
			run()
			continue
		}
		flagv := e.get(fr.curState, d.flag, SBool)
		e.condExec(fr, flagv, run)
	}
}

func inAnyLoop(fr *Frame, b *ssa.BasicBlock) bool {
	for _, li := range fr.loops {
		if li.body[b] {
			return true
		}
	}
	return false
}

func (e *Enc) condExec(fr *Frame, cond T, f func()) {
	beforeR, beforeS := fr.curReach, fr.curState
	fr.curReach = e.s.Define("reach:cond", And(beforeR, cond))
	fr.curState = beforeS.clone()
	f()
	afterR, afterS := fr.curReach, fr.curState
	skip := And(beforeR, Not(cond))
	fr.curState = e.mergeStates([]T{afterR, skip}, []*State{afterS, beforeS}, "cond")
	fr.curReach = e.s.Define("reach:condjoin", Or(afterR, skip))
}

// ---------------------------------------------------------------------------------------------
// syntactic mod-sets of functions (inferred frames)

func (eng *Engine) modSetOf(fn *ssa.Function) *ModSet {
	if m, ok := eng.modSets[fn]; ok {
		return m
	}
	m := newModSet()
	eng.modSets[fn] = m // cycle guard: partial result for recursion
	if len(fn.Blocks) == 0 {
		return m
	}
	addAddr := func(a ssa.Value) {
		switch x := a.(type) {
		case *ssa.FieldAddr:
			st := x.X.Type().Underlying().(*types.Pointer).Elem()
			su := under(st).(*types.Struct)
			ft := su.Field(x.Field).Type()
			if _, ok := under(ft).(*types.Struct); ok {
				// storing a whole struct into a struct-typed field
				reachTypes(ft, true, m, map[string]bool{})
			}
			m.keys["f:"+typeKey(st)+"."+su.Field(x.Field).Name()] = true
		case *ssa.IndexAddr:
			switch u := under(x.X.Type()).(type) {
			case *types.Slice:
				m.keys["e:"+typeKey(u.Elem())] = true
				if _, ok := under(u.Elem()).(*types.Struct); ok {
					m.structs[typeKey(u.Elem())] = true
				}
			case *types.Pointer:
				// element of an array: find the array's home
				at := under(u.Elem()).(*types.Array)
				if fa, ok := x.X.(*ssa.FieldAddr); ok {
					st := fa.X.Type().Underlying().(*types.Pointer).Elem()
					su := under(st).(*types.Struct)
					m.keys["f:"+typeKey(st)+"."+su.Field(fa.Field).Name()] = true
				} else {
					m.keys["p:"+typeKey(u.Elem())] = true
				}
				if _, ok := under(at.Elem()).(*types.Struct); ok {
					m.structs[typeKey(at.Elem())] = true
				}
			}
		case *ssa.Alloc, *ssa.FreeVar:
			// locals / captured cells: handled separately
		case *ssa.Global:
			m.keys["g:"+x.String()] = true
		default:
			// store through a computed pointer
			if pt, ok := under(a.Type()).(*types.Pointer); ok {
				reachTypes(pt.Elem(), true, m, map[string]bool{})
				if _, isStruct := under(pt.Elem()).(*types.Struct); !isStruct {
					m.keys["p:"+typeKey(pt.Elem())] = true
				}
			}
		}
	}
	var callees []*ssa.Function
	for _, b := range fn.Blocks {
		for _, in := range b.Instrs {
			switch x := in.(type) {
			case *ssa.Store:
				addAddr(x.Addr)
			case *ssa.MapUpdate:
				mt := typeKey(x.Map.Type())
				m.keys["md:"+mt] = true
				m.keys["mv:"+mt] = true
				m.keys["ml:"+mt] = true
			case *ssa.MakeClosure:
				callees = append(callees, x.Fn.(*ssa.Function))
			case ssa.CallInstruction:
				c := x.Common()
				if b, ok := c.Value.(*ssa.Builtin); ok {
					switch b.Name() {
					case "delete":
						mt := typeKey(c.Args[0].Type())
						m.keys["md:"+mt] = true
						m.keys["ml:"+mt] = true
					case "copy":
						if sl, ok := under(c.Args[0].Type()).(*types.Slice); ok {
							m.keys["e:"+typeKey(sl.Elem())] = true
						}
					case "append":
						// writes only fresh storage
					}
					continue
				}
				if sf := c.StaticCallee(); sf != nil {
					key := funcKey(sf)
					if eng.isEffectFree(key) {
						continue
					}
					if fc := eng.contracts[key]; fc != nil && (fc.Extern || fc.ModGiven) && len(fc.Modifies) == 0 {
						continue
					}
					if len(sf.Blocks) > 0 {
						callees = append(callees, sf)
						continue
					}
				} else if c.IsInvoke() {
					key := "(" + typeKey(c.Value.Type()) + ")." + c.Method.Name()
					if eng.isEffectFree(key) {
						continue
					}
					if fc := eng.contracts[key]; fc != nil && len(fc.Modifies) == 0 {
						continue
					}
				}
				// opaque: by argument types
				seen := map[string]bool{}
				for _, a := range c.Args {
					reachTypes(a.Type(), false, m, seen)
				}
			}
		}
	}
	for _, cf := range callees {
		if cf == fn {
			continue
		}
		m.union(eng.modSetOf(cf))
	}
	return m
}

// writesFreeVar: does the closure body (transitively through nested closures) store through its
// i-th free variable?
func (eng *Engine) writesFreeVar(fn *ssa.Function, i int) bool {
	if i >= len(fn.FreeVars) {
		return false
	}
	fv := fn.FreeVars[i]
	return eng.writesThrough(fn, fv, 0)
}

func (eng *Engine) writesThrough(fn *ssa.Function, root ssa.Value, depth int) bool {
	if depth > 4 {
		return true
	}
	// values derived from root by FieldAddr/IndexAddr
	derived := map[ssa.Value]bool{root: true}
	changed := true
	for changed {
		changed = false
		for _, b := range fn.Blocks {
			for _, in := range b.Instrs {
				switch x := in.(type) {
				case *ssa.FieldAddr:
					if derived[x.X] && !derived[x] {
						derived[x] = true
						changed = true
					}
				case *ssa.IndexAddr:
					if derived[x.X] && !derived[x] {
						derived[x] = true
						changed = true
					}
				}
			}
		}
	}
	for _, b := range fn.Blocks {
		for _, in := range b.Instrs {
			switch x := in.(type) {
			case *ssa.Store:
				if derived[x.Addr] {
					return true
				}
			case *ssa.MakeClosure:
				for j, bd := range x.Bindings {
					if derived[bd] {
						cf := x.Fn.(*ssa.Function)
						if j < len(cf.FreeVars) && eng.writesThrough(cf, cf.FreeVars[j], depth+1) {
							return true
						}
					}
				}
			case ssa.CallInstruction:
				for _, a := range x.Common().Args {
					if derived[a] {
						return true // address handed to a callee
					}
				}
			}
		}
	}
	return false
}

func sortedModKeys(m map[string]bool) []string {
	ks := make([]string, 0, len(m))
	for k := range m {
		ks = append(ks, k)
	}
	sort.Strings(ks)
	return ks
}

// clauseInternal: does the clause (through lets) refer to results of the callee's internal calls?
func clauseInternal(fc *FuncContract, x CExpr, depth int) bool {
	if cexprMentions(x, "ret") || cexprMentions(x, "retn") || cexprMentions(x, "called") {
		return true
	}
	if depth > 6 {
		return false
	}
	for _, l := range fc.Lets {
		if cexprMentions(x, l.Name) && clauseInternal(fc, l.Expr.Expr, depth+1) {
			return true
		}
	}
	return false
}

// ---------------------------------------------------------------------------------------------
// calls that exist only to feed a log statement

// logOnlyCall: the call's result flows - possibly through interface boxing, slicing, formatting or
// a varargs array - only into arguments of logging calls. Such calls are skipped when calls are
// numbered for ret(f, k) / "site call f nth k".
func (e *Enc) logOnlyCall(in ssa.Instruction) bool {
	if e.logOnly == nil {
		e.logOnly = map[ssa.Instruction]bool{}
	}
	if r, ok := e.logOnly[in]; ok {
		return r
	}
	v, ok := in.(ssa.Value)
	r := false
	if ok {
		if t, isT := v.Type().(*types.Tuple); !isT || t.Len() > 0 {
			r = e.feedsOnlyLogging(v, map[ssa.Value]bool{})
		}
	}
	e.logOnly[in] = r
	return r
}

func (e *Enc) isLogSink(key string) bool {
	if !e.eng.isEffectFree(key) {
		return false
	}
	return strings.Contains(key, "btclog") || strings.Contains(key, "go-spew") ||
		strings.HasSuffix(key, "lnutils.SpewLogClosure") || strings.HasSuffix(key, "lnutils.NewLogClosure") ||
		strings.HasSuffix(key, "lnutils.LogPubKey")
}

func (e *Enc) feedsOnlyLogging(v ssa.Value, seen map[ssa.Value]bool) bool {
	if seen[v] {
		return true
	}
	seen[v] = true
	refs := v.Referrers()
	if refs == nil {
		return false
	}
	uses := 0
	for _, r := range *refs {
		switch u := r.(type) {
		case *ssa.DebugRef:
			continue
		case *ssa.MakeInterface:
			uses++
			if !e.feedsOnlyLogging(u, seen) {
				return false
			}
		case *ssa.ChangeType:
			uses++
			if !e.feedsOnlyLogging(u, seen) {
				return false
			}
		case *ssa.ChangeInterface:
			uses++
			if !e.feedsOnlyLogging(u, seen) {
				return false
			}
		case *ssa.Convert:
			uses++
			if !e.feedsOnlyLogging(u, seen) {
				return false
			}
		case *ssa.Extract:
			uses++
			if !e.feedsOnlyLogging(u, seen) {
				return false
			}
		case *ssa.Slice:
			uses++
			if u.X != v || !e.feedsOnlyLogging(u, seen) {
				return false
			}
		case *ssa.Store:
			uses++
			if u.Val != v {
				return false
			}
			ia, ok := u.Addr.(*ssa.IndexAddr)
			if !ok {
				return false
			}
			al, ok := ia.X.(*ssa.Alloc)
			if !ok || al.Comment != "varargs" {
				return false
			}
			// the varargs array: only element stores and one slicing that is passed on
			ar := al.Referrers()
			if ar == nil {
				return false
			}
			for _, x := range *ar {
				switch y := x.(type) {
				case *ssa.IndexAddr, *ssa.DebugRef:
				case *ssa.Slice:
					if !e.feedsOnlyLogging(y, seen) {
						return false
					}
				default:
					return false
				}
			}
		case ssa.CallInstruction:
			uses++
			if _, isGo := r.(*ssa.Go); isGo {
				return false
			}
			if _, isDefer := r.(*ssa.Defer); isDefer {
				return false
			}
			c := u.Common()
			if c.Value == v {
				return false // v is the callee / receiver, not an argument
			}
			cs := e.buildCallSite(nil, r, c)
			switch {
			case e.isLogSink(cs.key):
			case cs.key == "fmt.Sprintf" || cs.key == "fmt.Sprint" || cs.key == "encoding/hex.EncodeToString":
				cv, ok := r.(ssa.Value)
				if !ok || !e.feedsOnlyLogging(cv, seen) {
					return false
				}
			default:
				return false
			}
		default:
			return false
		}
	}
	return uses > 0
}
