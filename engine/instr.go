package main

import (
	"strings"
	"fmt"
	"go/token"
	"go/types"
	"math/big"

	"golang.org/x/tools/go/ssa"
)

func (e *Enc) setVal(fr *Frame, v ssa.Value, x Val) {
	fr.vals[v] = x
}

func (e *Enc) instr(fr *Frame, in ssa.Instruction) {
	switch x := in.(type) {
	case *ssa.DebugRef:
		return
	case *ssa.Alloc:
		e.alloc(fr, x)
	case *ssa.Store:
		addr := e.val(fr, x.Addr)
		pv := e.asPtr(addr, x.Addr.Type())
		et := x.Addr.Type().Underlying().(*types.Pointer).Elem()
		e.siteStore(fr, x, pv, et)
		e.store(fr.curState, pv.A, et, e.val(fr, x.Val))
	case *ssa.UnOp:
		e.unop(fr, x)
	case *ssa.BinOp:
		e.binop(fr, x)
	case *ssa.FieldAddr:
		base := e.asPtr(e.val(fr, x.X), x.X.Type())
		st := x.X.Type().Underlying().(*types.Pointer).Elem()
		if e.fc != nil && e.fc.NoPanic && base.A.Kind == ARef {
			e.addObligation("nilderef", e.srcTextOr(x.Pos(), x.Name()), fr.curReach, Not(Eq(base.A.Base, IntLit(0))), "pointer is non-nil")
		}
		a := e.fieldAddr(base.A, st, x.Field)
		ft := under(st).(*types.Struct).Field(x.Field).Type()
		e.setVal(fr, x, &PtrV{A: a, Elem: ft})
	case *ssa.Field:
		sv, ok := e.val(fr, x.X).(*StructV)
		if !ok {
			panic(fmt.Sprintf("Field on non-struct value %T", e.val(fr, x.X)))
		}
		e.setVal(fr, x, sv.F[x.Field])
	case *ssa.Extract:
		tv, ok := e.val(fr, x.Tuple).(*TupleV)
		if !ok {
			panic(fmt.Sprintf("Extract on non-tuple %T", e.val(fr, x.Tuple)))
		}
		e.setVal(fr, x, tv.E[x.Index])
	case *ssa.Phi:
		return
	case *ssa.If:
		c := e.val(fr, x.Cond).(T)
		fr.cond[fr.curB] = c
	case *ssa.Jump:
		return
	case *ssa.Return:
		var vs []Val
		for _, r := range x.Results {
			vs = append(vs, e.val(fr, r))
		}
		fr.rets = append(fr.rets, retRec{reach: fr.curReach, vals: vs, state: fr.curState.clone(), block: fr.curB})
		if fr.isTop {
			e.atReturn(fr, x, vs)
		}
	case *ssa.Panic:
		fr.panics = append(fr.panics, fr.curReach)
		if fr.isTop && e.fc != nil && e.fc.NoPanic {
			e.addObligation("nopanic", e.srcTextOr(x.Pos(), "panic"), True, Not(fr.curReach), "explicit panic is unreachable")
		}
	case *ssa.Call:
		r := e.call(fr, x, &x.Call, x.Type())
		if r != nil {
			e.setVal(fr, x, r)
		}
	case *ssa.Go:
		e.note("go statement in " + shortFnName(fr.fn) + ": spawned call treated as an opaque call at the spawn point (A-seq)")
		e.opaqueCall(fr, &x.Call, nil, "go")
	case *ssa.Defer:
		e.deferInstr(fr, x)
	case *ssa.RunDefers:
		e.runDefers(fr)
	case *ssa.MakeInterface:
		v := e.val(fr, x.X)
		iv := &IfaceV{Tag: e.typeTag(x.X.Type()), Boxed: v, Dyn: x.X.Type()}
		switch vv := v.(type) {
		case T:
			if vv.Sort == SInt {
				iv.Data = vv
			} else if vv.Sort == SBool {
				iv.Data = Ite(vv, IntLit(1), IntLit(0))
			} else {
				iv.Data = e.s.Const("box", SInt)
			}
		case *PtrV:
			if vv.A.Kind == ACell {
				// boxing the address of a local: only harmless when it flows to effect-free calls;
				// give it an opaque identity without forcing the cell to the heap yet.
				iv.Data = e.s.Const("boxcell", SInt)
			} else {
				iv.Data = e.ptrTerm(vv)
			}
		case *SliceV:
			// a boxed slice: its identity word is a function of the storage it views (equal slices box
			// to equal words; lets a contract say WHICH slice a variadic ...interface{} argument carries)
			iv.Data = e.boxSliceWord(vv)
		default:
			iv.Data = e.s.Const("box", SInt)
		}
		e.setVal(fr, x, iv)
	case *ssa.ChangeInterface:
		e.setVal(fr, x, e.val(fr, x.X))
	case *ssa.ChangeType:
		e.setVal(fr, x, e.retype(e.val(fr, x.X), x.Type()))
	case *ssa.Convert:
		e.convert(fr, x)
	case *ssa.MultiConvert:
		e.setVal(fr, x, e.fresh(x.Type(), "multiconv"))
	case *ssa.TypeAssert:
		e.typeAssert(fr, x)
	case *ssa.MakeClosure:
		var bind []Val
		for _, b := range x.Bindings {
			bind = append(bind, e.val(fr, b))
		}
		fv := &FuncV{Fn: x.Fn.(*ssa.Function), Bind: bind}
		e.setVal(fr, x, fv)
		e.siteClosure(fr, x, fv)
	case *ssa.MakeSlice:
		ln := e.val(fr, x.Len).(T)
		cp := e.val(fr, x.Cap).(T)
		base := e.newAllocRef("mkslice")
		e.noteAllocAt(base, fr, x.Block())
		el := x.Type().Underlying().(*types.Slice).Elem()
		e.siteMake(fr, x, ln, cp)
		sv := &SliceV{Base: base, Off: IntLit(0), Len: ln, Cap: cp, Elem: el}
		// zero-initialised storage
		e.zeroStorage(fr.curState, base, el)
		e.setVal(fr, x, sv)
	case *ssa.MakeMap:
		ref := e.newAllocRef("mkmap")
		e.initMap(fr.curState, ref, x.Type())
		e.setVal(fr, x, ref)
	case *ssa.MakeChan:
		e.setVal(fr, x, e.newAllocRef("mkchan"))
	case *ssa.Slice:
		e.sliceInstr(fr, x)
	case *ssa.IndexAddr:
		e.indexAddr(fr, x)
	case *ssa.Index:
		e.index(fr, x)
	case *ssa.Lookup:
		e.lookup(fr, x)
	case *ssa.MapUpdate:
		e.mapUpdate(fr, x)
	case *ssa.Range:
		e.rangeInstr(fr, x)
	case *ssa.Next:
		e.nextInstr(fr, x)
	case *ssa.Select:
		e.note("select statement in " + shortFnName(fr.fn) + ": outcome unconstrained (A-seq)")
		for _, sc := range x.States {
			if sc.Dir == types.SendOnly {
				e.siteSend(fr, x, sc.Chan, sc.Send)
			}
		}
		e.setVal(fr, x, e.fresh(x.Type(), "select"))
	case *ssa.Send:
		e.note("channel send in " + shortFnName(fr.fn) + ": no effect modelled (A-seq)")
		e.siteSend(fr, x, x.Chan, x.X)
	case *ssa.SliceToArrayPointer:
		e.setVal(fr, x, e.fresh(x.Type(), "s2ap"))
	default:
		e.unsupported = append(e.unsupported, fmt.Sprintf("%T in %s", in, shortFnName(fr.fn)))
		if v, ok := in.(ssa.Value); ok {
			e.setVal(fr, v, e.fresh(v.Type(), "unsupported"))
		}
	}
}

func (e *Enc) srcTextOr(pos token.Pos, alt string) string {
	if s := e.srcText(pos); s != "" {
		return s
	}
	return alt
}

// asPtr views a value of pointer type as a PtrV.
func (e *Enc) asPtr(v Val, t types.Type) *PtrV {
	switch p := v.(type) {
	case *PtrV:
		return p
	case T:
		el := t.Underlying().(*types.Pointer).Elem()
		return &PtrV{A: Addr{Kind: ARef, Base: p}, Elem: el}
	}
	panic(fmt.Sprintf("asPtr: %T", v))
}

func (e *Enc) retype(v Val, t types.Type) Val {
	switch x := v.(type) {
	case *StructV:
		return &StructV{Typ: t, F: x.F}
	case *PtrV:
		if pt, ok := under(t).(*types.Pointer); ok {
			return &PtrV{A: x.A, Elem: pt.Elem()}
		}
	}
	return v
}

func (e *Enc) boxSliceWord(sv *SliceV) T {
	f := e.s.DeclareFun("boxslice", []string{SInt, SInt, SInt}, SInt)
	return App(SInt, f, sv.Base, sv.Off, sv.Len)
}

// noteAllocAt remembers the program point that created an allocation constant (iterfresh).
func (e *Enc) noteAllocAt(ref T, fr *Frame, b *ssa.BasicBlock) {
	if e.allocAt == nil {
		e.allocAt = map[string]allocPoint{}
	}
	e.allocAt[ref.S] = allocPoint{fr: fr, b: b}
}

func (e *Enc) newAllocRef(hint string) T {
	e.allocN++
	c := e.s.Const(fmt.Sprintf("alloc:%s", hint), SInt)
	e.s.Assume(Gt(c, IntLit(0)))
	// a fresh object did not exist on entry
	e.s.Assume(Not(App(SBool, e.s.DeclareFun("isold", []string{SInt}, SBool), c)))
	// a fresh object is not the interior (field) of another object
	e.s.Assume(Eq(App(SInt, e.s.DeclareFun("fldowner", []string{SInt}, SInt), c), IntLit(0)))
	// distinct from earlier allocations and from pointer-typed parameters
	for _, o := range e.allocRefs {
		e.s.Assume(Not(Eq(c, o)))
	}
	for _, p := range e.paramRefs {
		e.s.Assume(Not(Eq(c, p)))
	}
	e.allocRefs = append(e.allocRefs, c)
	return c
}

func (e *Enc) alloc(fr *Frame, x *ssa.Alloc) {
	et := x.Type().Underlying().(*types.Pointer).Elem()
	e.siteAlloc(fr, x, et)
	if _, esc := e.escaped[x]; esc {
		if at, ok := under(et).(*types.Array); ok && x.Comment == "slicelit" && sliceLitOnly(x) {
			if _, isStruct := under(at.Elem()).(*types.Struct); !isStruct {
				// the backing array of a slice literal []T{...} that outlives the frame: it is only
				// ever indexed and sliced, so it is modelled as slice storage in the element heap
				ref := e.newAllocRef("slicelit")
				e.zeroStorage(fr.curState, ref, at.Elem())
				e.setVal(fr, x, &PtrV{A: Addr{Kind: ARef, Base: ref, Lit: true}, Elem: et})
				return
			}
		}
		ref := e.newAllocRef(x.Comment)
		e.noteAllocAt(ref, fr, x.Block())
		pv := &PtrV{A: Addr{Kind: ARef, Base: ref}, Elem: et}
		e.store(fr.curState, pv.A, et, e.zero(et))
		e.setVal(fr, x, pv)
		if strings.HasPrefix(e.escaped[x], "boxed address") {
			e.published = append(e.published, publishedLoc{ref: ref, typ: et})
		}
		return
	}
	id, ok := e.cells[x]
	if !ok {
		id = e.nextCell
		e.nextCell++
		e.cells[x] = id
	}
	// a fresh instance per inlining / per encounter: cells are keyed by (alloc id, frame depth path)
	c := &Cell{ID: id*64 + e.cellInstance(x), Typ: et, Name: x.Comment, Alloc: x}
	c.RefTerm = T{e.s.DeclareFun(fmt.Sprintf("cellref:%d", c.ID), nil, SInt), SInt}
	pv := &PtrV{A: Addr{Kind: ACell, Cell: c}, Elem: et}
	e.store(fr.curState, pv.A, et, e.zero(et))
	e.setVal(fr, x, pv)
}

func (e *Enc) cellInstance(x *ssa.Alloc) int {
	n := e.cellInst[x]
	e.cellInst[x] = n + 1
	if n >= 64 {
		panic("too many instances of one local variable (inlining too deep)")
	}
	return n
}

func (e *Enc) unop(fr *Frame, x *ssa.UnOp) {
	switch x.Op {
	case token.MUL: // load
		pv := e.asPtr(e.val(fr, x.X), x.X.Type())
		if e.fc != nil && e.fc.NoPanic && pv.A.Kind == ARef {
			e.addObligation("nilderef", e.srcTextOr(x.Pos(), x.Name()), fr.curReach, Not(Eq(pv.A.Base, IntLit(0))), "pointer is non-nil")
		}
		v := e.load(fr.curState, pv.A, x.Type())
		if pv.A.Kind == ACell && pv.A.I == nil {
			ck := fmt.Sprintf("c:%d%s", pv.A.Cell.ID, pv.A.Path)
			if cur, ok := fr.curState.m[ck]; ok {
				if sv, ok := e.cellStatic[ck+"|"+cur.S]; ok {
					v = sv
				}
			}
		}
		e.setVal(fr, x, e.nameVal(v, x.Type(), x.Name()))
	case token.NOT:
		e.setVal(fr, x, Not(e.val(fr, x.X).(T)))
	case token.SUB:
		v := e.val(fr, x.X).(T)
		if isFloatType(x.Type()) {
			e.setVal(fr, x, e.floatOp("fneg", SF, v))
			return
		}
		e.setVal(fr, x, e.wrap(fr, Sub(IntLit(0), v), x.Type(), x, "-"+x.X.Name()))
	case token.XOR:
		v := e.val(fr, x.X).(T)
		r, _ := intRangeOf(x.Type())
		if r.signed {
			e.setVal(fr, x, Sub(Sub(IntLit(0), v), IntLit(1)))
		} else {
			e.setVal(fr, x, Sub(IntBig(r.hi), v))
		}
	case token.ARROW:
		e.note("channel receive in " + shortFnName(fr.fn) + ": value unconstrained (A-seq)")
		e.setVal(fr, x, e.fresh(x.Type(), "recv"))
	default:
		panic("unop " + x.Op.String())
	}
}

// wrap gives the machine result of an exact integer computation of type t. In nowrap functions
// an obligation demands that no wrap-around happens.
func (e *Enc) wrap(fr *Frame, exact T, t types.Type, at ssa.Instruction, alt string) T {
	r, ok := intRangeOf(t)
	if !ok {
		return exact
	}
	exact = e.s.Define("x:"+valName(at), exact)
	in := inRange(exact, r)
	if bo, ok := at.(*ssa.BinOp); ok && !at.Pos().IsValid() {
		if phi, ok := bo.X.(*ssa.Phi); ok && phi.Comment == "rangeindex" {
			// compiler-synthesised range index increment: bounded by the length of the ranged value
			e.s.Assume(Imp(fr.curReach, in))
			return exact
		}
	}
	_, isConv := at.(*ssa.Convert)
	if e.fc != nil && e.fc.NoWrap && !(isConv && e.fc.NoWrapArith) {
		anchor := e.srcTextOr(at.Pos(), alt)
		e.addObligation("nowrap", anchor, fr.curReach, in, "result of "+anchor+" fits its type "+t.String())
		e.s.Assume(Imp(fr.curReach, in))
		return exact
	}
	// exact two's-complement wrap-around when the mathematical result does not fit
	m := IntBig(pow2(uint(r.bits)))
	var wrapped T
	if r.signed {
		h := IntBig(pow2(uint(r.bits - 1)))
		wrapped = Sub(App(SInt, "mod", Add(exact, h), m), h)
	} else {
		wrapped = App(SInt, "mod", exact, m)
	}
	c := e.s.Const("w:"+valName(at), SInt)
	e.s.Assume(inRange(c, r))
	e.s.Assume(Eq(c, Ite(in, exact, wrapped)))
	return c
}

func valName(in ssa.Instruction) string {
	if v, ok := in.(ssa.Value); ok {
		return v.Name()
	}
	return "instr"
}

func pow2(k uint) *big.Int { return new(big.Int).Lsh(big.NewInt(1), k) }

func litValue(t T) (*big.Int, bool) {
	if t.Sort != SInt {
		return nil, false
	}
	return smtIntValueStrict(t.S)
}

func smtIntValueStrict(s string) (*big.Int, bool) {
	if len(s) == 0 {
		return nil, false
	}
	if s[0] == '(' {
		var inner string
		if _, err := fmt.Sscanf(s, "(- %s", &inner); err == nil {
			inner = inner[:len(inner)-1]
			if v, ok := new(big.Int).SetString(inner, 10); ok {
				return v.Neg(v), true
			}
		}
		return nil, false
	}
	for _, c := range s {
		if c < '0' || c > '9' {
			return nil, false
		}
	}
	return new(big.Int).SetString(s, 10)
}

func (e *Enc) binop(fr *Frame, x *ssa.BinOp) {
	t := x.X.Type()
	a := e.val(fr, x.X)
	b := e.val(fr, x.Y)
	switch x.Op {
	case token.EQL, token.NEQ:
		var eq T
		switch {
		case isFloatType(t):
			eq = e.floatOp("feq", SBool, a.(T), b.(T))
		default:
			eq = e.eqValLoose(a, b, t, x.Y.Type())
		}
		if x.Op == token.NEQ {
			eq = Not(eq)
		}
		e.setVal(fr, x, eq)
		return
	}
	at, aok := a.(T)
	bt, bok := b.(T)
	if !aok || !bok {
		panic(fmt.Sprintf("binop %s on %T %T", x.Op, a, b))
	}
	if isFloatType(t) {
		switch x.Op {
		case token.LSS:
			e.setVal(fr, x, e.floatOp("flt", SBool, at, bt))
		case token.LEQ:
			e.setVal(fr, x, e.floatOp("fle", SBool, at, bt))
		case token.GTR:
			e.setVal(fr, x, e.floatOp("flt", SBool, bt, at))
		case token.GEQ:
			e.setVal(fr, x, e.floatOp("fle", SBool, bt, at))
		case token.ADD:
			e.setVal(fr, x, e.floatOp("fadd", SF, at, bt))
		case token.SUB:
			e.setVal(fr, x, e.floatOp("fsub", SF, at, bt))
		case token.MUL:
			e.setVal(fr, x, e.floatOp("fmul", SF, at, bt))
		case token.QUO:
			e.setVal(fr, x, e.floatOp("fdiv", SF, at, bt))
		default:
			panic("float op " + x.Op.String())
		}
		return
	}
	if isStringType(t) {
		switch x.Op {
		case token.ADD:
			r := e.s.Const("strcat", SInt)
			f := e.s.DeclareFun("strlen", []string{SInt}, SInt)
			e.s.Assume(Eq(App(SInt, f, r), Add(App(SInt, f, at), App(SInt, f, bt))))
			e.setVal(fr, x, r)
		default:
			e.setVal(fr, x, e.s.Const("strcmp", SBool))
		}
		return
	}
	if isBoolType(t) {
		panic("bool binop " + x.Op.String())
	}
	rt := x.Type()
	switch x.Op {
	case token.LSS:
		e.setVal(fr, x, Lt(at, bt))
	case token.LEQ:
		e.setVal(fr, x, Le(at, bt))
	case token.GTR:
		e.setVal(fr, x, Gt(at, bt))
	case token.GEQ:
		e.setVal(fr, x, Ge(at, bt))
	case token.ADD:
		e.setVal(fr, x, e.wrap(fr, Add(at, bt), rt, x, "+"))
	case token.SUB:
		e.setVal(fr, x, e.wrap(fr, Sub(at, bt), rt, x, "-"))
	case token.MUL:
		e.setVal(fr, x, e.wrap(fr, Mul(at, bt), rt, x, "*"))
	case token.QUO:
		e.div0(fr, x, bt)
		r, _ := intRangeOf(rt)
		if r.signed {
			e.setVal(fr, x, e.wrap(fr, TDiv(at, bt), rt, x, "/"))
		} else {
			e.setVal(fr, x, e.s.Define("q:"+x.Name(), App(SInt, "div", at, bt)))
		}
	case token.REM:
		e.div0(fr, x, bt)
		r, _ := intRangeOf(rt)
		if r.signed {
			e.setVal(fr, x, e.s.Define("r:"+x.Name(), TMod(at, bt)))
		} else {
			e.setVal(fr, x, e.s.Define("r:"+x.Name(), App(SInt, "mod", at, bt)))
		}
	case token.SHL:
		if k, ok := litValue(bt); ok && k.IsInt64() && k.Int64() < 64 {
			e.setVal(fr, x, e.wrapShl(fr, Mul(at, IntBig(pow2(uint(k.Int64())))), rt, x))
		} else {
			rg, _ := intRangeOf(rt)
			nb := IntLit(int64(rg.bits))
			exact := Ite(Ge(bt, nb), IntLit(0), Mul(at, e.pow2Fun(bt)))
			e.setVal(fr, x, e.wrapShl(fr, exact, rt, x))
		}
	case token.SHR:
		if k, ok := litValue(bt); ok && k.IsInt64() && k.Int64() < 64 {
			e.setVal(fr, x, e.s.Define("shr:"+x.Name(), App(SInt, "div", at, IntBig(pow2(uint(k.Int64()))))))
		} else {
			rg, _ := intRangeOf(rt)
			nb := IntLit(int64(rg.bits))
			over := IntLit(0)
			if rg.signed {
				over = Ite(Lt(at, IntLit(0)), IntLit(-1), IntLit(0))
			}
			e.setVal(fr, x, e.s.Define("shr:"+x.Name(), Ite(Ge(bt, nb), over, App(SInt, "div", at, e.pow2Fun(bt)))))
		}
	case token.AND:
		if m, ok := litValue(bt); ok && isMask(m) {
			e.setVal(fr, x, e.s.Define("and:"+x.Name(), App(SInt, "mod", at, IntBig(new(big.Int).Add(m, big.NewInt(1))))))
		} else if m, ok := litValue(at); ok && isMask(m) {
			e.setVal(fr, x, e.s.Define("and:"+x.Name(), App(SInt, "mod", bt, IntBig(new(big.Int).Add(m, big.NewInt(1))))))
		} else if m, ok := litValue(bt); ok && contiguousMask(m) != nil {
			e.setVal(fr, x, e.s.Define("and:"+x.Name(), andContiguous(at, contiguousMask(m))))
		} else if m, ok := litValue(at); ok && contiguousMask(m) != nil {
			e.setVal(fr, x, e.s.Define("and:"+x.Name(), andContiguous(bt, contiguousMask(m))))
		} else if m, ok := litValue(bt); ok && fewBits(m) {
			e.setVal(fr, x, e.s.Define("and:"+x.Name(), andWithBits(at, m)))
		} else if m, ok := litValue(at); ok && fewBits(m) {
			e.setVal(fr, x, e.s.Define("and:"+x.Name(), andWithBits(bt, m)))
		} else {
			r := e.uninterpBits(fr, "and", at, bt, rt)
			if rg, _ := intRangeOf(rt); !rg.signed {
				e.s.Assume(And(Le(r, at), Le(r, bt)))
			}
			e.setVal(fr, x, r)
		}
	case token.OR:
		r := e.uninterpBits(fr, "or", at, bt, rt)
		if rg, _ := intRangeOf(rt); !rg.signed {
			e.s.Assume(And(Ge(r, at), Ge(r, bt), Le(r, Add(at, bt))))
		}
		e.setVal(fr, x, r)
	case token.XOR:
		r := e.uninterpBits(fr, "xor", at, bt, rt)
		if rg, _ := intRangeOf(rt); !rg.signed {
			e.s.Assume(Le(r, Add(at, bt)))
		}
		e.setVal(fr, x, r)
	case token.AND_NOT:
		r := e.uninterpBits(fr, "andnot", at, bt, rt)
		if rg, _ := intRangeOf(rt); !rg.signed {
			e.s.Assume(Le(r, at))
		}
		e.setVal(fr, x, r)
	default:
		panic("binop " + x.Op.String())
	}
}

// wrapShl: a left shift discards high bits silently; it is never a "nowrap" obligation unless the
// contract asks for nowrap (then the shift must be exact as well).
func (e *Enc) wrapShl(fr *Frame, exact T, t types.Type, at ssa.Instruction) T {
	return e.wrap(fr, exact, t, at, "<<")
}

func isMask(m *big.Int) bool {
	if m.Sign() <= 0 {
		return false
	}
	p := new(big.Int).Add(m, big.NewInt(1))
	return new(big.Int).And(p, m).Sign() == 0
}

func (e *Enc) uninterpBits(fr *Frame, op string, a, b T, t types.Type) T {
	f := e.s.DeclareFun("bits:"+op+":"+typeKey(under(t)), []string{SInt, SInt}, SInt)
	r := e.s.Define("bits", App(SInt, f, a, b))
	if rg, ok := intRangeOf(t); ok {
		if !e.rangeSeen[r.S] {
			e.rangeSeen[r.S] = true
			e.s.Assume(inRange(r, rg))
		}
	}
	e.note("bitwise " + op + " on non-constant operands is uninterpreted in Int theory (" + shortFnName(fr.fn) + ")")
	return r
}

func (e *Enc) div0(fr *Frame, x *ssa.BinOp, d T) {
	if e.fc != nil && (e.fc.NoPanic || e.fc.NoWrap) {
		if _, ok := litValue(d); ok && d.S != "0" {
			return
		}
		anchor := e.srcTextOr(x.Pos(), "/")
		e.addObligation("div0", anchor, fr.curReach, Not(Eq(d, IntLit(0))), "divisor of "+anchor+" is non-zero")
	}
}

func (e *Enc) floatOp(name, ret string, args ...T) T {
	e.declFloat()
	var ss []string
	for _, a := range args {
		ss = append(ss, a.Sort)
	}
	f := e.s.DeclareFun(name, ss, ret)
	e.floatOpsUsed[name] = true
	return App(ret, f, args...)
}

// eqValLoose compares two values whose static types may differ in interface-ness (x == nil).
func (e *Enc) eqValLoose(a, b Val, ta, tb types.Type) T {
	if ia, ok := a.(*IfaceV); ok {
		if ib, ok := b.(*IfaceV); ok {
			return ifaceEq(ia, ib)
		}
		// comparing with nil constant
		return Eq(ia.Tag, IntLit(0))
	}
	if ib, ok := b.(*IfaceV); ok {
		return Eq(ib.Tag, IntLit(0))
	}
	if sa, ok := a.(*SliceV); ok {
		if sb, ok := b.(*SliceV); ok {
			if sb.Base.S == "0" {
				return Eq(sa.Base, IntLit(0))
			}
			if sa.Base.S == "0" {
				return Eq(sb.Base, IntLit(0))
			}
			// contract-level comparison of two slice headers
			return And(Eq(sa.Base, sb.Base), Eq(sa.Off, sb.Off), Eq(sa.Len, sb.Len))
		}
		return Eq(sa.Base, IntLit(0)) // in Go, slices can only be compared with nil
	}
	if sb, ok := b.(*SliceV); ok {
		return Eq(sb.Base, IntLit(0))
	}
	if _, ok := a.(*StructV); ok {
		return e.eqVal(a, b, ta)
	}
	if _, ok := under(ta).(*types.Array); ok {
		return e.eqVal(a, b, ta)
	}
	return Eq(e.scalar(a), e.scalar(b))
}

func (e *Enc) convert(fr *Frame, x *ssa.Convert) {
	from, to := x.X.Type(), x.Type()
	v := e.val(fr, x.X)
	switch {
	case isIntType(from) && isIntType(to):
		rf, _ := intRangeOf(from)
		rt, _ := intRangeOf(to)
		if rf.lo.Cmp(rt.lo) >= 0 && rf.hi.Cmp(rt.hi) <= 0 {
			e.setVal(fr, x, v)
			return
		}
		e.setVal(fr, x, e.wrap(fr, v.(T), to, x, "conv"))
	case isIntType(from) && isFloatType(to):
		e.setVal(fr, x, e.floatOp("i2f", SF, v.(T)))
	case isFloatType(from) && isIntType(to):
		e.declFloat()
		f := e.s.DeclareFun("f2i", []string{SF}, SInt)
		e.floatOpsUsed["f2i"] = true
		exact := App(SInt, f, v.(T))
		e.setVal(fr, x, e.wrap(fr, exact, to, x, "conv"))
	case isFloatType(from) && isFloatType(to):
		e.setVal(fr, x, v)
	default:
		if _, ok := under(to).(*types.Pointer); ok {
			e.setVal(fr, x, e.retype(v, to))
			return
		}
		// string <-> []byte etc.
		e.setVal(fr, x, e.fresh(to, "conv"))
	}
}

func (e *Enc) typeAssert(fr *Frame, x *ssa.TypeAssert) {
	iv, ok := e.val(fr, x.X).(*IfaceV)
	if !ok {
		panic("typeassert on non-interface")
	}
	var okT T
	var res Val
	if _, isIface := under(x.AssertedType).(*types.Interface); isIface {
		// interface-to-interface: succeeds for non-nil values whose dynamic type implements it;
		// statically unknown unless the dynamic type is known.
		if iv.Dyn != nil && types.Implements(iv.Dyn, under(x.AssertedType).(*types.Interface)) {
			okT = Not(Eq(iv.Tag, IntLit(0)))
		} else {
			c := e.s.Const("ta:ok", SBool)
			e.s.Assume(Imp(c, Not(Eq(iv.Tag, IntLit(0)))))
			okT = c
		}
		res = iv
	} else {
		okT = Eq(iv.Tag, e.typeTag(x.AssertedType))
		if iv.Boxed != nil && iv.Dyn != nil && types.Identical(iv.Dyn, x.AssertedType) {
			res = iv.Boxed
		} else {
			switch under(x.AssertedType).(type) {
			case *types.Pointer:
				res = &PtrV{A: Addr{Kind: ARef, Base: iv.Data}, Elem: under(x.AssertedType).(*types.Pointer).Elem()}
			case *types.Basic:
				if isIntType(x.AssertedType) || isStringType(x.AssertedType) {
					res = iv.Data
				} else {
					res = e.fresh(x.AssertedType, "ta")
				}
			default:
				res = e.fresh(x.AssertedType, "ta")
			}
		}
	}
	if x.CommaOk {
		e.setVal(fr, x, &TupleV{E: []Val{res, okT}})
	} else {
		// failing assertion panics: continue only where it holds
		if fr.isTop && e.fc != nil && e.fc.NoPanic {
			e.addObligation("typeassert", e.srcTextOr(x.Pos(), x.Name()), fr.curReach, okT, "type assertion succeeds")
		}
		fr.curReach = e.s.Define("reach:ta", And(fr.curReach, okT))
		e.setVal(fr, x, res)
	}
}

// fewBits: a non-negative constant with at most 8 set bits.
func fewBits(m *big.Int) bool {
	if m.Sign() < 0 {
		return false
	}
	n := 0
	for i := 0; i < m.BitLen(); i++ {
		if m.Bit(i) == 1 {
			n++
		}
	}
	return n <= 8
}

// andWithBits: x & m for a constant m, as a sum of single-bit extractions (exact for two's
// complement values since SMT div/mod with positive divisor floor).
func andWithBits(x T, m *big.Int) T {
	if m.Sign() == 0 {
		return IntLit(0)
	}
	var terms []T
	for i := 0; i < m.BitLen(); i++ {
		if m.Bit(i) == 1 {
			p := IntBig(pow2(uint(i)))
			bit := App(SInt, "mod", App(SInt, "div", x, p), IntLit(2))
			terms = append(terms, Mul(bit, p))
		}
	}
	if len(terms) == 1 {
		return terms[0]
	}
	return App(SInt, "+", terms...)
}

// pow2Fun: 2^k for 0 <= k < 64 (and 2^64 beyond) as a defined SMT function.
func (e *Enc) pow2Fun(k T) T {
	if v, ok := litValue(k); ok && v.IsInt64() && v.Int64() >= 0 && v.Int64() < 512 {
		return IntBig(pow2(uint(v.Int64())))
	}
	if !e.s.declSet["pow2fun"] {
		e.s.declSet["pow2fun"] = true
		body := IntBig(pow2(64)).S
		for i := 63; i >= 0; i-- {
			body = fmt.Sprintf("(ite (= |pk| %d) %s %s)", i, pow2(uint(i)).String(), body)
		}
		e.s.decls = append(e.s.decls, "(define-fun pow2 ((|pk| Int)) Int "+body+")")
	}
	return App(SInt, "pow2", k)
}

// contiguousMask: m == 2^hi - 2^lo (a run of ones); returns [lo, hi] or nil.
func contiguousMask(m *big.Int) []uint {
	if m.Sign() <= 0 {
		return nil
	}
	lo := uint(0)
	for m.Bit(int(lo)) == 0 {
		lo++
	}
	hi := uint(m.BitLen())
	want := new(big.Int).Sub(pow2(hi), pow2(lo))
	if want.Cmp(m) != 0 {
		return nil
	}
	return []uint{lo, hi}
}

// andContiguous: x & (2^hi - 2^lo) = (x mod 2^hi) - (x mod 2^lo), exact for two's complement.
func andContiguous(x T, r []uint) T {
	return Sub(App(SInt, "mod", x, IntBig(pow2(r[1]))), App(SInt, "mod", x, IntBig(pow2(r[0]))))
}

// sliceLitOnly: the array allocation is used only as the operand of IndexAddr and Slice
// instructions (the shape go/ssa emits for a slice literal).
func sliceLitOnly(x *ssa.Alloc) bool {
	refs := x.Referrers()
	if refs == nil {
		return false
	}
	for _, r := range *refs {
		switch u := r.(type) {
		case *ssa.IndexAddr:
			if u.X != x {
				return false
			}
		case *ssa.Slice:
			if u.X != x {
				return false
			}
		case *ssa.DebugRef:
		default:
			return false
		}
	}
	return true
}
