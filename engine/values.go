package main

// Symbolic values: the Go-side shapes that SSA values are mapped to. Scalars are SMT terms;
// composite values (structs, interfaces, slices, tuples) are kept flattened so that queries stay in
// linear arithmetic + arrays.

import (
	"fmt"
	"go/types"
	"math/big"
	"strings"

	"golang.org/x/tools/go/ssa"
)

type Val interface{}

type StructV struct {
	Typ types.Type
	F   []Val
}

type TupleV struct{ E []Val }

type IfaceV struct {
	Tag, Data T
	Boxed     Val        // statically known boxed value (may be nil)
	Dyn       types.Type // statically known dynamic type (may be nil)
}

type SliceV struct {
	Base, Off, Len, Cap T
	Elem                types.Type
	FromCell            *Cell // slice of a local array cell (nil otherwise)
	CellPath            string
}

type FuncV struct {
	Fn   *ssa.Function // nil: opaque function value
	Bind []Val
	Term T
}

type PtrV struct {
	A    Addr
	Elem types.Type // pointee type
}

type AddrKind int

const (
	ARef AddrKind = iota // plain reference term
	AField               // field of a struct located at Base
	ACell                // local variable cell (with static field path)
	AElem                // element of slice/array storage
	AGlobal
)

type Addr struct {
	Kind AddrKind
	Base T          // ARef: the pointer; AField: address of the enclosing struct; AElem: storage ref
	S    types.Type // AField: the struct type
	Idx  int        // AField: field index
	Cell *Cell      // ACell
	Path string     // ACell: static sub-path ".0.3"
	I    *T         // AElem or ACell-array: index term
	G    *ssa.Global
	Lit  bool // ARef to the backing array of a slice literal that lives in the element heap e:<T>
}

type Cell struct {
	ID      int
	Typ     types.Type
	Name    string
	Alloc   *ssa.Alloc
	RefTerm T
}

// ---------------------------------------------------------------------------------------------
// type helpers

func typeKey(t types.Type) string {
	return types.TypeString(t, nil)
}

func under(t types.Type) types.Type { return t.Underlying() }

type intRange struct {
	lo, hi *big.Int
	signed bool
	bits   int
}

func basicRange(b *types.Basic) (intRange, bool) {
	bits := 0
	signed := false
	switch b.Kind() {
	case types.Int8:
		bits, signed = 8, true
	case types.Int16:
		bits, signed = 16, true
	case types.Int32:
		bits, signed = 32, true
	case types.Int64, types.Int:
		bits, signed = 64, true
	case types.Uint8:
		bits = 8
	case types.Uint16:
		bits = 16
	case types.Uint32:
		bits = 32
	case types.Uint64, types.Uint, types.Uintptr:
		bits = 64
	case types.UntypedInt, types.UntypedRune:
		bits, signed = 64, true
	default:
		return intRange{}, false
	}
	r := intRange{signed: signed, bits: bits}
	if signed {
		r.hi = new(big.Int).Sub(new(big.Int).Lsh(big.NewInt(1), uint(bits-1)), big.NewInt(1))
		r.lo = new(big.Int).Neg(new(big.Int).Lsh(big.NewInt(1), uint(bits-1)))
	} else {
		r.lo = big.NewInt(0)
		r.hi = new(big.Int).Sub(new(big.Int).Lsh(big.NewInt(1), uint(bits)), big.NewInt(1))
	}
	return r, true
}

func intRangeOf(t types.Type) (intRange, bool) {
	if b, ok := under(t).(*types.Basic); ok && b.Info()&types.IsInteger != 0 {
		return basicRange(b)
	}
	return intRange{}, false
}

func isIntType(t types.Type) bool {
	b, ok := under(t).(*types.Basic)
	return ok && b.Info()&types.IsInteger != 0
}

func isFloatType(t types.Type) bool {
	b, ok := under(t).(*types.Basic)
	return ok && b.Info()&types.IsFloat != 0
}

func isBoolType(t types.Type) bool {
	b, ok := under(t).(*types.Basic)
	return ok && b.Info()&types.IsBoolean != 0
}

func isStringType(t types.Type) bool {
	b, ok := under(t).(*types.Basic)
	return ok && b.Info()&types.IsString != 0
}

func inRange(t T, r intRange) T {
	return And(Le(IntBig(r.lo), t), Le(t, IntBig(r.hi)))
}

// leaf describes one SMT-level component of a Go value of some type.
type leaf struct {
	path string // ".F.tag" etc
	sort string
	typ  types.Type // Go type of the leaf if it is an integer/bool/etc (for range assumptions)
	kind string     // "", "tag", "data", "base", "off", "len", "cap"
}

var leafCache = map[string][]leaf{}

// leavesOf flattens a Go type into its SMT components.
func leavesOf(t types.Type) []leaf {
	k := typeKey(t)
	if l, ok := leafCache[k]; ok {
		return l
	}
	var out []leaf
	switch u := under(t).(type) {
	case *types.Basic:
		switch {
		case u.Info()&types.IsBoolean != 0:
			out = []leaf{{"", SBool, t, ""}}
		case u.Info()&types.IsFloat != 0:
			out = []leaf{{"", SF, t, ""}}
		default:
			out = []leaf{{"", SInt, t, ""}}
		}
	case *types.Struct:
		for i := 0; i < u.NumFields(); i++ {
			for _, l := range leavesOf(u.Field(i).Type()) {
				out = append(out, leaf{fmt.Sprintf(".%d%s", i, l.path), l.sort, l.typ, l.kind})
			}
		}
	case *types.Interface:
		out = []leaf{{".tag", SInt, nil, "tag"}, {".data", SInt, nil, "data"}}
	case *types.Slice:
		out = []leaf{{".base", SInt, nil, "base"}, {".off", SInt, nil, "off"}, {".len", SInt, nil, "len"}, {".cap", SInt, nil, "cap"}}
	case *types.Array:
		el := leavesOf(u.Elem())
		if len(el) == 1 && el[0].path == "" {
			out = []leaf{{"", arrSort(SInt, el[0].sort), t, "array"}}
		} else {
			// array of composite values held in a register: opaque blob
			out = []leaf{{"", SInt, nil, "blob"}}
		}
	case *types.Tuple:
		for i := 0; i < u.Len(); i++ {
			for _, l := range leavesOf(u.At(i).Type()) {
				out = append(out, leaf{fmt.Sprintf(".%d%s", i, l.path), l.sort, l.typ, l.kind})
			}
		}
	default:
		// pointer, map, chan, func, unsafe.Pointer, type params
		out = []leaf{{"", SInt, t, "ref"}}
	}
	leafCache[k] = out
	return out
}

// ---------------------------------------------------------------------------------------------
// flatten / unflatten

func (e *Enc) flatten(v Val, t types.Type) []T {
	switch u := under(t).(type) {
	case *types.Struct:
		sv, ok := v.(*StructV)
		if !ok {
			panic(fmt.Sprintf("flatten: expected struct for %s, got %T", typeKey(t), v))
		}
		var out []T
		for i := 0; i < u.NumFields(); i++ {
			out = append(out, e.flatten(sv.F[i], u.Field(i).Type())...)
		}
		return out
	case *types.Tuple:
		tv := v.(*TupleV)
		var out []T
		for i := 0; i < u.Len(); i++ {
			out = append(out, e.flatten(tv.E[i], u.At(i).Type())...)
		}
		return out
	case *types.Interface:
		iv, ok := v.(*IfaceV)
		if !ok {
			panic(fmt.Sprintf("flatten: expected iface for %s, got %T", typeKey(t), v))
		}
		if pv, ok := iv.Boxed.(*PtrV); ok && pv.A.Kind == ACell {
			// the boxed address of a local goes into memory (e.g. a varargs array of interfaces):
			// the local must live on the heap so that callees reaching it can modify it
			e.escape(pv.A.Cell, "boxed address of local stored in memory")
		}
		return []T{iv.Tag, iv.Data}
	case *types.Slice:
		sv, ok := v.(*SliceV)
		if !ok {
			panic(fmt.Sprintf("flatten: expected slice for %s, got %T", typeKey(t), v))
		}
		if sv.FromCell != nil {
			e.escape(sv.FromCell, "slice of local array flattened")
		}
		return []T{sv.Base, sv.Off, sv.Len, sv.Cap}
	case *types.Array:
		if av, ok := v.(T); ok {
			return []T{av}
		}
		_ = u
		panic(fmt.Sprintf("flatten: array value %T", v))
	default:
		return []T{e.scalar(v)}
	}
}

// scalar converts a scalar-like Val (term, pointer, func) to a term.
func (e *Enc) scalar(v Val) T {
	switch x := v.(type) {
	case T:
		return x
	case *PtrV:
		return e.ptrTerm(x)
	case *FuncV:
		if x.Fn != nil {
			e.noteClosureEscape(x)
		}
		if x.Term.S == "" {
			x.Term = e.s.Const("fn", SInt)
		}
		return x.Term
	case nil:
		panic("scalar: nil value")
	}
	panic(fmt.Sprintf("scalar: unexpected %T", v))
}

func (e *Enc) unflatten(t types.Type, ts []T) (Val, []T) {
	switch u := under(t).(type) {
	case *types.Struct:
		sv := &StructV{Typ: t}
		for i := 0; i < u.NumFields(); i++ {
			var f Val
			f, ts = e.unflatten(u.Field(i).Type(), ts)
			sv.F = append(sv.F, f)
		}
		return sv, ts
	case *types.Tuple:
		tv := &TupleV{}
		for i := 0; i < u.Len(); i++ {
			var f Val
			f, ts = e.unflatten(u.At(i).Type(), ts)
			tv.E = append(tv.E, f)
		}
		return tv, ts
	case *types.Interface:
		return &IfaceV{Tag: ts[0], Data: ts[1]}, ts[2:]
	case *types.Slice:
		// Go invariant of every slice value: len <= cap
		if key := ts[2].S + "<=" + ts[3].S; !e.rangeSeen[key] && !strings.Contains(key, "bv!") {
			e.rangeSeen[key] = true
			e.s.Assume(Le(ts[2], ts[3]))
		}
		return &SliceV{Base: ts[0], Off: ts[1], Len: ts[2], Cap: ts[3], Elem: u.Elem()}, ts[4:]
	case *types.Array:
		return ts[0], ts[1:]
	case *types.Pointer:
		return &PtrV{A: Addr{Kind: ARef, Base: ts[0]}, Elem: u.Elem()}, ts[1:]
	default:
		return ts[0], ts[1:]
	}
}

// fresh creates an unconstrained value of the given type (with type-range assumptions).
func (e *Enc) fresh(t types.Type, hint string) Val {
	ls := leavesOf(t)
	ts := make([]T, len(ls))
	for i, l := range ls {
		c := e.s.Const(hint+l.path, l.sort)
		ts[i] = c
		e.assumeLeafRange(c, l)
	}
	v, _ := e.unflatten(t, ts)
	return v
}

func (e *Enc) assumeLeafRange(c T, l leaf) {
	switch l.kind {
	case "len", "cap", "off":
		e.s.Assume(And(Ge(c, IntLit(0)), Le(c, IntBig(maxSliceLen))))
	case "tag":
		e.s.Assume(Ge(c, IntLit(0)))
	case "":
		if l.typ != nil {
			if r, ok := intRangeOf(l.typ); ok {
				e.s.Assume(inRange(c, r))
			}
		}
	}
}

// zero value of a type
func (e *Enc) zero(t types.Type) Val {
	ls := leavesOf(t)
	ts := make([]T, len(ls))
	for i, l := range ls {
		ts[i] = e.zeroLeaf(l)
	}
	v, _ := e.unflatten(t, ts)
	return v
}

func (e *Enc) zeroLeaf(l leaf) T {
	switch {
	case l.sort == SBool:
		return False
	case l.sort == SInt:
		return IntLit(0)
	case l.sort == SF:
		e.declFloat()
		return T{"fzero", SF}
	case isArrSort(l.sort):
		es := arrElemSort(l.sort)
		var z T
		switch es {
		case SBool:
			z = False
		case SInt:
			z = IntLit(0)
		default:
			return e.s.Const("zeroarr", l.sort)
		}
		return T{"((as const " + l.sort + ") " + z.S + ")", l.sort}
	}
	return e.s.Const("zero", l.sort)
}

func (e *Enc) declFloat() {
	e.s.DeclareSortOnce("F")
	e.s.Raw("fzero", "(declare-fun fzero () F)")
}

// iteVal merges two values of the same type.
func (e *Enc) iteVal(c T, a, b Val, t types.Type) Val {
	if c.S == "true" {
		return a
	}
	if c.S == "false" {
		return b
	}
	// keep static function values when both sides agree
	if fa, ok := a.(*FuncV); ok {
		if fb, ok := b.(*FuncV); ok && fa == fb {
			return a
		}
	}
	if pa, ok := a.(*PtrV); ok {
		if pb, ok := b.(*PtrV); ok && sameAddr(pa.A, pb.A) {
			return a
		}
	}
	if ia, ok := a.(*IfaceV); ok {
		if ib, ok := b.(*IfaceV); ok {
			r := &IfaceV{Tag: Ite(c, ia.Tag, ib.Tag), Data: Ite(c, ia.Data, ib.Data)}
			if ia.Dyn != nil && ib.Dyn != nil && types.Identical(ia.Dyn, ib.Dyn) {
				r.Dyn = ia.Dyn
			}
			return r
		}
	}
	fa := e.flatten(a, t)
	fb := e.flatten(b, t)
	out := make([]T, len(fa))
	for i := range fa {
		out[i] = Ite(c, fa[i], fb[i])
	}
	v, _ := e.unflatten(t, out)
	return v
}

func sameAddr(a, b Addr) bool {
	if a.Kind != b.Kind {
		return false
	}
	switch a.Kind {
	case ARef:
		return a.Base.S == b.Base.S
	case AField:
		return a.Base.S == b.Base.S && a.Idx == b.Idx && types.Identical(a.S, b.S)
	case ACell:
		ai, bi := "", ""
		if a.I != nil {
			ai = a.I.S
		}
		if b.I != nil {
			bi = b.I.S
		}
		return a.Cell == b.Cell && a.Path == b.Path && ai == bi
	case AElem:
		return a.Base.S == b.Base.S && a.I.S == b.I.S
	case AGlobal:
		return a.G == b.G
	}
	return false
}

// eqVal: structural equality of two values of type t.
func (e *Enc) eqVal(a, b Val, t types.Type) T {
	if _, ok := under(t).(*types.Interface); ok {
		ia, ib := a.(*IfaceV), b.(*IfaceV)
		return ifaceEq(ia, ib)
	}
	fa := e.flatten(a, t)
	fb := e.flatten(b, t)
	var cs []T
	for i := range fa {
		cs = append(cs, Eq(fa[i], fb[i]))
	}
	return And(cs...)
}

// ---------------------------------------------------------------------------------------------
// pointers as terms

// fldTerm is the address of an embedded struct-typed (or address-taken) field of the object at
// base. Field address functions are injective, their ranges are pairwise disjoint, a field of a
// non-nil object is non-nil, and a fresh allocation is never the interior of another object.
func (e *Enc) fldTerm(s types.Type, idx int, base T) T {
	fn := e.fldFun(s, idx)
	t := T{"(" + fn + " " + base.S + ")", SInt}
	inv := e.s.DeclareFun("inv:"+strings.Trim(fn, "|"), []string{SInt}, SInt)
	own := e.s.DeclareFun("fldowner", []string{SInt}, SInt)
	id, ok := e.fldIDs[fn]
	if !ok {
		id = len(e.fldIDs) + 1
		e.fldIDs[fn] = id
	}
	if strings.Contains(t.S, "bv!") || strings.Contains(t.S, "|qh|") {
		k := "fld-ax:" + fn
		if !e.s.declSet[k] {
			e.s.declSet[k] = true
			e.s.decls = append(e.s.decls, fmt.Sprintf("(assert (forall ((|fb| Int)) (! (and (= (%s (%s |fb|)) |fb|) (= (%s (%s |fb|)) %d) (=> (not (= |fb| 0)) (not (= (%s |fb|) 0)))) :pattern ((%s |fb|)))))", inv, fn, own, fn, id, fn, fn))
		}
		return t
	}
	if k := "fld-ax:" + t.S; !e.rangeSeen[k] {
		e.rangeSeen[k] = true
		e.s.Assume(And(Eq(App(SInt, inv, t), base), Eq(App(SInt, own, t), IntLit(int64(id))),
			Imp(Not(Eq(base, IntLit(0))), Not(Eq(t, IntLit(0))))))
	}
	return t
}

func (e *Enc) fldFun(s types.Type, idx int) string {
	st := under(s).(*types.Struct)
	name := "fld:" + typeKey(s) + "." + st.Field(idx).Name()
	return e.s.DeclareFun(name, []string{SInt}, SInt)
}

func (e *Enc) ptrTerm(p *PtrV) T {
	a := p.A
	switch a.Kind {
	case ARef:
		return a.Base
	case AField:
		if a.I != nil {
			t, _ := e.structAddr(a)
			return t
		}
		return e.fldTerm(a.S, a.Idx, a.Base)
	case ACell:
		e.escape(a.Cell, "address of local used as a value")
		t := a.Cell.RefTerm
		// apply static path
		if a.Path != "" || a.I != nil {
			return e.s.Const("cellsub", SInt)
		}
		return t
	case AElem:
		return e.elemAddr(a.Base, *a.I)
	case AGlobal:
		return T{e.s.DeclareFun("globref:"+a.G.String(), nil, SInt), SInt}
	}
	panic("ptrTerm")
}

func sanitize(s string) string {
	s = strings.ReplaceAll(s, "|", "!")
	return s
}

// ifaceEq: interface equality; the data word is irrelevant for nil interfaces.
func ifaceEq(a, b *IfaceV) T {
	if a.Tag.S == "0" {
		return Eq(b.Tag, IntLit(0))
	}
	if b.Tag.S == "0" {
		return Eq(a.Tag, IntLit(0))
	}
	return And(Eq(a.Tag, b.Tag), Or(Eq(a.Tag, IntLit(0)), Eq(a.Data, b.Data)))
}

// slices cannot be longer than the address space allows: len, cap and offsets fit in 2^47.
var maxSliceLen = new(big.Int).Lsh(big.NewInt(1), 47)
