package main

// Slices, arrays, maps, range loops.

import (
	"fmt"
	"go/types"
	"strings"

	"golang.org/x/tools/go/ssa"
)

func (e *Enc) zeroStorage(st *State, base T, elem types.Type) {
	// storage of a freshly made slice holds zero values
	if _, isStruct := under(elem).(*types.Struct); isStruct {
		return // element objects: zero-ness of fresh struct elements is not modelled
	}
	for _, lf := range e.elemLeaves(elem) {
		key := "e:" + typeKey(elem) + lf.path
		srt := arrSort(SInt, arrSort(SInt, lf.sort))
		arr := e.get(st, key, srt)
		z := e.zeroLeaf(leaf{sort: arrSort(SInt, lf.sort)})
		e.noteWrite(key)
		st.m[key] = e.s.Define("st:"+key, Store(arr, base, z))
	}
}

// elemLeaves: leaves of an element type when stored in slice storage. Struct elements are stored
// per field under keys e:<S>.<path>.
func (e *Enc) elemLeaves(elem types.Type) []leaf { return leavesOf(elem) }

func (e *Enc) initMap(st *State, ref T, mt types.Type) {
	m := under(mt).(*types.Map)
	if _, isIface := under(m.Key()).(*types.Interface); isIface {
		return
	}
	dk := "md:" + typeKey(mt)
	srt := arrSort(SInt, arrSort(SInt, SBool))
	arr := e.get(st, dk, srt)
	e.noteWrite(dk)
	st.m[dk] = e.s.Define("st:"+dk, Store(arr, ref, T{"((as const " + arrSort(SInt, SBool) + ") false)", arrSort(SInt, SBool)}))
	lk := "ml:" + typeKey(mt)
	larr := e.get(st, lk, arrSort(SInt, SInt))
	e.noteWrite(lk)
	st.m[lk] = e.s.Define("st:"+lk, Store(larr, ref, IntLit(0)))
}

func (e *Enc) sliceInstr(fr *Frame, x *ssa.Slice) {
	v := e.val(fr, x.X)
	var lo, hi, mx *T
	if x.Low != nil {
		t := e.val(fr, x.Low).(T)
		lo = &t
	}
	if x.High != nil {
		t := e.val(fr, x.High).(T)
		hi = &t
	}
	if x.Max != nil {
		t := e.val(fr, x.Max).(T)
		mx = &t
	}
	zero := IntLit(0)
	switch xt := under(x.X.Type()).(type) {
	case *types.Slice:
		sv := v.(*SliceV)
		l, h := zero, sv.Len
		if lo != nil {
			l = *lo
		}
		if hi != nil {
			h = *hi
		}
		c := sv.Cap
		if mx != nil {
			c = *mx
		}
		e.boundsObl(fr, x, And(Le(zero, l), Le(l, h), Le(h, sv.Cap)), "slice bounds")
		e.setVal(fr, x, &SliceV{Base: sv.Base, Off: e.s.Define("off", Add(sv.Off, l)), Len: e.s.Define("len", Sub(h, l)), Cap: e.s.Define("cap", Sub(c, l)), Elem: sv.Elem, FromCell: sv.FromCell, CellPath: sv.CellPath})
	case *types.Basic: // string
		s := v.(T)
		f := e.s.DeclareFun("strlen", []string{SInt}, SInt)
		r := e.s.Const("substr", SInt)
		l, h := zero, App(SInt, f, s)
		if lo != nil {
			l = *lo
		}
		if hi != nil {
			h = *hi
		}
		e.boundsObl(fr, x, And(Le(zero, l), Le(l, h), Le(h, App(SInt, f, s))), "string slice bounds")
		e.s.Assume(Eq(App(SInt, f, r), Sub(h, l)))
		e.setVal(fr, x, r)
	case *types.Pointer: // pointer to array
		at := under(xt.Elem()).(*types.Array)
		pv := e.asPtr(v, x.X.Type())
		n := IntLit(at.Len())
		l, h := zero, n
		if lo != nil {
			l = *lo
		}
		if hi != nil {
			h = *hi
		}
		c := n
		if mx != nil {
			c = *mx
		}
		e.boundsObl(fr, x, And(Le(zero, l), Le(l, h), Le(h, n)), "array slice bounds")
		sv := &SliceV{Off: l, Len: e.s.Define("len", Sub(h, l)), Cap: e.s.Define("cap", Sub(c, l)), Elem: at.Elem()}
		if pv.A.Kind == ARef && pv.A.Lit {
			sv.Base = pv.A.Base
			e.setVal(fr, x, sv)
			return
		}
		if pv.A.Kind == ACell && pv.A.I == nil {
			sv.FromCell = pv.A.Cell
			sv.CellPath = pv.A.Path
			sv.Base = pv.A.Cell.RefTerm
		} else {
			// array stored in the heap: its storage ref is the address of the array itself and the
			// element heap e:<T> is NOT the place where the array lives (arrays are values). Views
			// of heap arrays as slices are imprecise: contents unknown.
			e.note("slice of a heap-resident array in " + shortFnName(fr.fn) + ": identified by the array's address; contents of the view are unconstrained and writes through it are not tracked")
			sv.Base = e.arrView(pv.A)
			e.arrViews[sv.Base.S] = arrViewInfo{addr: pv.A, typ: xt.Elem()}
		}
		e.setVal(fr, x, sv)
	default:
		panic(fmt.Sprintf("slice of %T", xt))
	}
}

func (e *Enc) boundsObl(fr *Frame, at ssa.Instruction, ok T, what string) {
	if e.fc != nil && (e.fc.NoPanic || e.fc.BoundsSafe) {
		anchor := e.srcTextOr(at.Pos(), valName(at))
		e.addObligation("bounds", anchor, fr.curReach, ok, what+" at "+anchor)
	}
}

func (e *Enc) indexAddr(fr *Frame, x *ssa.IndexAddr) {
	idx := e.val(fr, x.Index).(T)
	switch xt := under(x.X.Type()).(type) {
	case *types.Slice:
		sv := e.val(fr, x.X).(*SliceV)
		e.boundsObl(fr, x, And(Le(IntLit(0), idx), Lt(idx, sv.Len)), "index in range")
		if sv.FromCell != nil {
			i := e.s.Define("idx", Add(sv.Off, idx))
			e.setVal(fr, x, &PtrV{A: Addr{Kind: ACell, Cell: sv.FromCell, Path: sv.CellPath, I: &i}, Elem: xt.Elem()})
			return
		}
		i := e.s.Define("idx", Add(sv.Off, idx))
		if _, isStruct := under(xt.Elem()).(*types.Struct); isStruct {
			e.setVal(fr, x, &PtrV{A: Addr{Kind: ARef, Base: e.elemAddr(sv.Base, i)}, Elem: xt.Elem()})
			return
		}
		e.setVal(fr, x, &PtrV{A: Addr{Kind: AElem, Base: sv.Base, I: &i}, Elem: xt.Elem()})
	case *types.Pointer:
		at := under(xt.Elem()).(*types.Array)
		pv := e.asPtr(e.val(fr, x.X), x.X.Type())
		e.boundsObl(fr, x, And(Le(IntLit(0), idx), Lt(idx, IntLit(at.Len()))), "index in range")
		if pv.A.I != nil {
			panic("nested array index")
		}
		if pv.A.Kind == ARef && pv.A.Lit {
			i := idx
			e.setVal(fr, x, &PtrV{A: Addr{Kind: AElem, Base: pv.A.Base, I: &i}, Elem: at.Elem()})
			return
		}
		if _, isStruct := under(at.Elem()).(*types.Struct); isStruct {
			// array of composite elements: each element is an object at elemaddr(array, i)
			base, _ := e.structAddr(pv.A)
			e.setVal(fr, x, &PtrV{A: Addr{Kind: ARef, Base: e.elemAddr(base, idx)}, Elem: at.Elem()})
			return
		}
		a := pv.A
		a.I = &idx
		if a.Kind == ARef {
			a.S = xt.Elem()
		}
		e.setVal(fr, x, &PtrV{A: a, Elem: at.Elem()})
	default:
		panic(fmt.Sprintf("IndexAddr on %T", xt))
	}
}

func (e *Enc) index(fr *Frame, x *ssa.Index) {
	idx := e.val(fr, x.Index).(T)
	switch xt := under(x.X.Type()).(type) {
	case *types.Array:
		e.boundsObl(fr, x, And(Le(IntLit(0), idx), Lt(idx, IntLit(xt.Len()))), "index in range")
		e.setVal(fr, x, e.arrayElem(e.val(fr, x.X), xt, idx))
	case *types.Basic: // string
		f := e.s.DeclareFun("strbyte", []string{SInt, SInt}, SInt)
		r := e.s.Define("strbyte", App(SInt, f, e.val(fr, x.X).(T), idx))
		e.s.Assume(And(Le(IntLit(0), r), Le(r, IntLit(255))))
		e.setVal(fr, x, r)
	case *types.Slice:
		sv := e.val(fr, x.X).(*SliceV)
		i := Add(sv.Off, idx)
		if _, isStruct := under(xt.Elem()).(*types.Struct); isStruct {
			e.setVal(fr, x, e.load(fr.curState, Addr{Kind: ARef, Base: e.elemAddr(sv.Base, i)}, xt.Elem()))
			return
		}
		e.setVal(fr, x, e.load(fr.curState, Addr{Kind: AElem, Base: sv.Base, I: &i}, xt.Elem()))
	default:
		panic(fmt.Sprintf("Index on %T", xt))
	}
}

// arrayElem selects element idx of an array value.
func (e *Enc) arrayElem(v Val, at *types.Array, idx T) Val {
	ts := e.flatten(v, at)
	out := make([]T, len(ts))
	for i, t := range ts {
		out[i] = Select(t, idx)
	}
	r, _ := e.unflatten(at.Elem(), out)
	// range assumptions for integer elements
	for i, lf := range leavesOf(at.Elem()) {
		e.assumeLoadedRange(out[i], lf)
	}
	return r
}

// ---------------------------------------------------------------------------------------------
// maps: modelled with a domain array and a value array per map type, for Int-sorted keys only.
// Other maps are opaque (lookups unconstrained).

func (e *Enc) mapKeyTerm(k Val, kt types.Type) (T, bool) {
	ls := leavesOf(kt)
	if len(ls) == 1 && ls[0].sort == SInt {
		return e.scalar(k), true
	}
	if _, isIface := under(kt).(*types.Interface); isIface {
		return T{}, false
	}
	// composite keys (structs / arrays of scalars): an injective Int encoding of the leaves
	var ts []T
	func() {
		defer func() {
			if r := recover(); r != nil {
				ts = nil
			}
		}()
		ts = e.flatten(k, kt)
	}()
	if ts == nil || len(ts) != len(ls) {
		return T{}, false
	}
	allBool := true
	for _, l := range ls {
		if l.sort != SBool {
			allBool = false
		}
	}
	if allBool && len(ts) <= 16 {
		// mixed-radix encoding: exact and injective
		var sum []T
		for i, t := range ts {
			sum = append(sum, Ite(t, IntBig(pow2(uint(i))), IntLit(0)))
		}
		if len(sum) == 1 {
			return sum[0], true
		}
		return App(SInt, "+", sum...), true
	}
	var sorts []string
	for _, l := range ls {
		sorts = append(sorts, l.sort)
	}
	f := e.s.DeclareFun("mkkey:"+typeKey(kt), sorts, SInt)
	t := App(SInt, f, ts...)
	// injectivity, instantiated for the pairs of keys seen in this function
	if !strings.Contains(t.S, "bv!") {
		prev := e.compositeKeys[typeKey(kt)]
		seen := false
		for _, p := range prev {
			if p.term.S == t.S {
				seen = true
				break
			}
		}
		if !seen {
			for _, p := range prev {
				var eqs []T
				for i := range ts {
					eqs = append(eqs, Eq(ts[i], p.leaves[i]))
				}
				e.s.Assume(Eq(Eq(t, p.term), And(eqs...)))
			}
			e.compositeKeys[typeKey(kt)] = append(prev, compKey{t, ts})
		}
	}
	return t, true
}

type compKey struct {
	term   T
	leaves []T
}

func (e *Enc) lookup(fr *Frame, x *ssa.Lookup) {
	if isStringType(x.X.Type()) {
		f := e.s.DeclareFun("strbyte", []string{SInt, SInt}, SInt)
		r := e.s.Define("strbyte", App(SInt, f, e.val(fr, x.X).(T), e.val(fr, x.Index).(T)))
		e.s.Assume(And(Le(IntLit(0), r), Le(r, IntLit(255))))
		e.setVal(fr, x, r)
		return
	}
	mt := under(x.X.Type()).(*types.Map)
	e.siteLookup(fr, x)
	ref := e.scalar(e.val(fr, x.X))
	kt, ok := e.mapKeyTerm(e.val(fr, x.Index), mt.Key())
	var val Val
	var present T
	if ok {
		dk := "md:" + typeKey(x.X.Type())
		dom := e.get(fr.curState, dk, arrSort(SInt, arrSort(SInt, SBool)))
		present = e.s.Define("present", Select(Select(dom, ref), kt))
		// values
		ls := leavesOf(mt.Elem())
		ts := make([]T, len(ls))
		zs := e.flatten(e.zero(mt.Elem()), mt.Elem())
		for i, lf := range ls {
			vk := "mv:" + typeKey(x.X.Type()) + lf.path
			arr := e.get(fr.curState, vk, arrSort(SInt, arrSort(SInt, lf.sort)))
			e.markRefKey(vk, lf)
			raw := Select(Select(arr, ref), kt)
			e.assumeLoadedRange(raw, lf)
			ts[i] = Ite(present, raw, zs[i])
		}
		val, _ = e.unflatten(mt.Elem(), ts)
	} else {
		e.note("map with non-scalar key in " + shortFnName(fr.fn) + ": lookups unconstrained")
		val = e.fresh(mt.Elem(), "maplookup")
		present = e.s.Const("present", SBool)
	}
	if x.CommaOk {
		e.setVal(fr, x, &TupleV{E: []Val{val, present}})
	} else {
		e.setVal(fr, x, val)
	}
}

func (e *Enc) mapUpdate(fr *Frame, x *ssa.MapUpdate) {
	mt := under(x.Map.Type()).(*types.Map)
	ref := e.scalar(e.val(fr, x.Map))
	kt, ok := e.mapKeyTerm(e.val(fr, x.Key), mt.Key())
	e.siteMapUpdate(fr, x)
	if !ok {
		return
	}
	st := fr.curState
	dk := "md:" + typeKey(x.Map.Type())
	dom := e.get(st, dk, arrSort(SInt, arrSort(SInt, SBool)))
	wasPresent := e.s.Define("mu:present", Select(Select(dom, ref), kt))
	e.noteWrite(dk)
	st.m[dk] = e.s.Define("st:"+dk, Store(dom, ref, Store(Select(dom, ref), kt, True)))
	ts := e.flatten(e.val(fr, x.Value), mt.Elem())
	for i, lf := range leavesOf(mt.Elem()) {
		vk := "mv:" + typeKey(x.Map.Type()) + lf.path
		arr := e.get(st, vk, arrSort(SInt, arrSort(SInt, lf.sort)))
		e.noteWrite(vk)
		st.m[vk] = e.s.Define("st:"+vk, Store(arr, ref, Store(Select(arr, ref), kt, ts[i])))
	}
	lk := "ml:" + typeKey(x.Map.Type())
	if _, ok := e.keySorts[lk]; ok {
		// the length of this map object grows by one iff the key was absent
		la := e.get(st, lk, arrSort(SInt, SInt))
		e.noteWrite(lk)
		st.m[lk] = e.s.Define("st:"+lk, Store(la, ref, Ite(wasPresent, Select(la, ref), Add(Select(la, ref), IntLit(1)))))
	}
}

func (e *Enc) mapDelete(fr *Frame, m Val, mtyp types.Type, k Val) {
	mt := under(mtyp).(*types.Map)
	ref := e.scalar(m)
	kt, ok := e.mapKeyTerm(k, mt.Key())
	if !ok {
		return
	}
	st := fr.curState
	dk := "md:" + typeKey(mtyp)
	dom := e.get(st, dk, arrSort(SInt, arrSort(SInt, SBool)))
	wasPresent := e.s.Define("md:present", Select(Select(dom, ref), kt))
	e.noteWrite(dk)
	st.m[dk] = e.s.Define("st:"+dk, Store(dom, ref, Store(Select(dom, ref), kt, False)))
	lk := "ml:" + typeKey(mtyp)
	if _, ok := e.keySorts[lk]; ok {
		// the length shrinks by one iff the key was present
		la := e.get(st, lk, arrSort(SInt, SInt))
		e.noteWrite(lk)
		st.m[lk] = e.s.Define("st:"+lk, Store(la, ref, Ite(wasPresent, Sub(Select(la, ref), IntLit(1)), Select(la, ref))))
	}
}

// range over maps / strings: an abstract iterator; each Next yields an unconstrained element that
// (for maps with scalar keys) is in the map's domain at loop entry.
type iterV struct {
	X    ssa.Value
	Ref  T
	Typ  types.Type
	Dom  T
	Vals []T
	OK   bool
}

func (e *Enc) rangeInstr(fr *Frame, x *ssa.Range) {
	it := &iterV{X: x.X, Typ: x.X.Type()}
	if mt, ok := under(x.X.Type()).(*types.Map); ok {
		it.Ref = e.scalar(e.val(fr, x.X))
		if ls := leavesOf(mt.Key()); len(ls) == 1 && ls[0].sort == SInt {
			dk := "md:" + typeKey(x.X.Type())
			it.Dom = Select(e.get(fr.curState, dk, arrSort(SInt, arrSort(SInt, SBool))), it.Ref)
			it.Dom = e.s.Define("rangedom", it.Dom)
			for _, lf := range leavesOf(mt.Elem()) {
				vk := "mv:" + typeKey(x.X.Type()) + lf.path
				arr := e.get(fr.curState, vk, arrSort(SInt, arrSort(SInt, lf.sort)))
				it.Vals = append(it.Vals, e.s.Define("rangevals", Select(arr, it.Ref)))
			}
			it.OK = true
		}
	}
	e.setVal(fr, x, it)
}

func (e *Enc) nextInstr(fr *Frame, x *ssa.Next) {
	it, _ := e.val(fr, x.Iter).(*iterV)
	tt := x.Type().(*types.Tuple)
	okv := e.s.Const("next:ok", SBool)
	k := e.fresh(tt.At(1).Type(), "next:k")
	var v Val
	if it != nil && it.OK && !x.IsString {
		mt := under(it.Typ).(*types.Map)
		kt := e.scalar(k)
		e.s.Assume(Imp(okv, Select(it.Dom, kt)))
		ls := leavesOf(mt.Elem())
		ts := make([]T, len(ls))
		for i, lf := range ls {
			ts[i] = Select(it.Vals[i], kt)
			e.assumeLoadedRange(ts[i], lf)
		}
		v, _ = e.unflatten(mt.Elem(), ts)
	} else {
		v = e.fresh(tt.At(2).Type(), "next:v")
	}
	e.setVal(fr, x, &TupleV{E: []Val{okv, k, v}})
}

// arrView: storage identity of the slice view x[:] of an array living at address a.
func (e *Enc) arrView(a Addr) T {
	f := e.s.DeclareFun("arrview", []string{SInt}, SInt)
	at, ok := e.structAddr(a)
	if !ok {
		c := e.s.Const("arrview:unknown", SInt)
		return c
	}
	t := App(SInt, f, at)
	k := "arrview-ax:" + t.S
	if !e.rangeSeen[k] {
		e.rangeSeen[k] = true
		e.s.Assume(Gt(t, IntLit(0)))
	}
	return t
}

// arrViewInfo remembers which heap-resident array a slice view x[:] aliases, so that callees
// receiving the view are known to be able to overwrite the array.
type arrViewInfo struct {
	addr Addr
	typ  types.Type
}
