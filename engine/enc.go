package main

// Passive (Flanagan–Saxe style) encoding of go/ssa function bodies into SMT, with obligations.

import (
	"fmt"
	"os"
	"go/ast"
	"go/constant"
	"go/token"
	"go/types"
	"math/big"
	"sort"
	"strings"

	"golang.org/x/tools/go/ssa"
)

// Enc encodes one function under contract (with everything inlined into it).
type Enc struct {
	logOnly map[ssa.Instruction]bool
	eng  *Engine
	s    *Script
	fn   *ssa.Function
	fc   *FuncContract
	pkg  *LoadedPkg
	pass int

	entry        *State
	universe     map[string]bool
	keySorts     map[string]string
	universeGrew bool
	rangeSeen    map[string]bool
	cellStatic   map[string]Val
	writeLogs    []map[string]bool

	cells       map[*ssa.Alloc]int // stable cell ids
	nextCell    int
	escaped     map[*ssa.Alloc]string // allocs that must live on the heap
	escapedGrew bool
	fldIDs      map[string]int
	published   []publishedLoc // heap-resident locals whose boxed address was stored in memory
	allocN      int
	allocRefs   []T
	allocAt     map[string]allocPoint // where (frame, block) an allocation constant was created

	loopMods map[*ssa.BasicBlock]map[string]bool // from pass 1

	obls     []*Obligation
	oblNames map[string]int
	assumps  map[string]bool // assumption notes (extern, havoc loops, opaque calls ...)
	warnings []string

	top      *Frame
	siteHits map[*Site]int
	siteSeen map[*Site]int
	typeTags map[string]int

	ghostSite string

	callCount map[string]int
	retVals   map[string][]TV // callee name -> results of calls in encounter order (top frame only)

	closureEffects []*FuncV // escaped closures whose effects may occur at any later call
	inlineDepth    int
	bv             bool
	unsupported    []string

	loopModsTmp      map[*ssa.BasicBlock]map[string]bool
	loopLogOwner     []*loopInfo
	floatConsts      map[string]float64
	floatOpsUsed     map[string]bool
	cellInst         map[*ssa.Alloc]int
	assumpEffectFree map[string]bool
	usedExterns      map[string]*FuncContract // assumed contracts applied at a call in this function (key -> contract)
	closureSiteDone  map[*ssa.Function]bool
	funcOperandDone  map[*ssa.Function]bool
	paramRefs        []T
	anchorMissing    []string
	imprecise        []string
	replay           *ReplaySpec
	quantFns         map[string]string
	callResult       map[ssa.Instruction]TV
	callResultPre    map[ssa.Instruction]TV
	callIndex        map[string][]ssa.Instruction
	siteInstrs       map[*Site][]ssa.Instruction
	curSiteInstr     ssa.Instruction
	compositeKeys    map[string][]compKey
	arrViews         map[string]arrViewInfo
}

type Frame struct {
	fn      *ssa.Function
	vals    map[ssa.Value]Val
	bind    []Val
	params  []Val
	parent  *Frame
	depth   int
	reach   map[*ssa.BasicBlock]T      // reach at block end
	states  map[*ssa.BasicBlock]*State // state at block end
	startR  map[*ssa.BasicBlock]T      // reach at block start
	cond    map[*ssa.BasicBlock]T      // If condition at block end
	rets    []retRec
	panics  []T
	defers  []deferRec
	idom    map[*ssa.BasicBlock]*ssa.BasicBlock
	rpo     []*ssa.BasicBlock
	rpoIdx  map[*ssa.BasicBlock]int
	loops   map[*ssa.BasicBlock]*loopInfo // by head
	isTop   bool
	curB    *ssa.BasicBlock
	curI    int
	callIdx map[*ssa.Call]int
	// position tracking for site evaluation
	curReach T
	curState *State
	phiOverride map[ssa.Value]Val
}

type retRec struct {
	reach T
	vals  []Val
	state *State
	block *ssa.BasicBlock
}

type deferRec struct {
	instr *ssa.Defer
	block *ssa.BasicBlock
	flag  string // ghost key
	cs    *callSite
}

type loopInfo struct {
	head    *ssa.BasicBlock
	body    map[*ssa.BasicBlock]bool
	ordinal int
	ann     *LoopAnn
	backs   []*ssa.BasicBlock
	phis    []*ssa.Phi
	frame     *Frame
	headState *State // state assumed at head (after havoc)
	headPhis  map[ssa.Value]Val
}

type allocPoint struct {
	fr *Frame
	b  *ssa.BasicBlock
}

type publishedLoc struct {
	ref T
	typ types.Type
}

func (e *Enc) note(a string) { e.assumps[a] = true }

func (e *Enc) warn(format string, args ...any) {
	e.warnings = append(e.warnings, fmt.Sprintf(format, args...))
}

func (e *Enc) escape(c *Cell, why string) {
	if c.Alloc == nil {
		return
	}
	if _, ok := e.escaped[c.Alloc]; !ok {
		e.escaped[c.Alloc] = why
		e.escapedGrew = true
	}
}

func (e *Enc) noteClosureEscape(f *FuncV) {
	for _, g := range e.closureEffects {
		if g == f {
			return
		}
	}
	e.closureEffects = append(e.closureEffects, f)
}

// ---------------------------------------------------------------------------------------------
// CFG helpers

func computeRPO(fn *ssa.Function) []*ssa.BasicBlock {
	var order []*ssa.BasicBlock
	seen := map[*ssa.BasicBlock]bool{}
	var dfs func(b *ssa.BasicBlock)
	dfs = func(b *ssa.BasicBlock) {
		seen[b] = true
		for _, s := range b.Succs {
			if !seen[s] {
				dfs(s)
			}
		}
		order = append(order, b)
	}
	if len(fn.Blocks) > 0 {
		dfs(fn.Blocks[0])
	}
	for i, j := 0, len(order)-1; i < j; i, j = i+1, j-1 {
		order[i], order[j] = order[j], order[i]
	}
	return order
}

func (fr *Frame) dominates(a, b *ssa.BasicBlock) bool { return a.Dominates(b) }

func (e *Enc) newFrame(fn *ssa.Function, parent *Frame) *Frame {
	fr := &Frame{fn: fn, vals: map[ssa.Value]Val{}, parent: parent,
		reach: map[*ssa.BasicBlock]T{}, states: map[*ssa.BasicBlock]*State{}, startR: map[*ssa.BasicBlock]T{},
		cond: map[*ssa.BasicBlock]T{}, loops: map[*ssa.BasicBlock]*loopInfo{}, rpoIdx: map[*ssa.BasicBlock]int{},
		callIdx: map[*ssa.Call]int{}}
	if parent != nil {
		fr.depth = parent.depth + 1
	}
	fr.rpo = computeRPO(fn)
	for i, b := range fr.rpo {
		fr.rpoIdx[b] = i
	}
	// natural loops: back edge u->h with h dominating u
	var heads []*ssa.BasicBlock
	for _, u := range fr.rpo {
		for _, h := range u.Succs {
			if h.Dominates(u) {
				li := fr.loops[h]
				if li == nil {
					li = &loopInfo{head: h, body: map[*ssa.BasicBlock]bool{h: true}, frame: fr}
					fr.loops[h] = li
					heads = append(heads, h)
				}
				li.backs = append(li.backs, u)
				// collect body
				var stack []*ssa.BasicBlock
				if !li.body[u] {
					li.body[u] = true
					stack = append(stack, u)
				}
				for len(stack) > 0 {
					x := stack[len(stack)-1]
					stack = stack[:len(stack)-1]
					for _, p := range x.Preds {
						if !li.body[p] {
							li.body[p] = true
							stack = append(stack, p)
						}
					}
				}
			}
		}
	}
	// ordinals by source position of the head's first instruction with a position / loop statement
	lpos := map[*ssa.BasicBlock]token.Pos{}
	for _, h := range heads {
		best := token.Pos(1 << 40)
		for b := range fr.loops[h].body {
			for _, in := range b.Instrs {
				switch in.(type) {
				case *ssa.Phi, *ssa.DebugRef:
					continue
				}
				if p := in.Pos(); p.IsValid() && p < best {
					best = p
				}
			}
		}
		lpos[h] = best
	}
	sort.SliceStable(heads, func(i, j int) bool {
		if lpos[heads[i]] != lpos[heads[j]] {
			return lpos[heads[i]] < lpos[heads[j]]
		}
		return heads[i].Index < heads[j].Index
	})
	for i, h := range heads {
		if os.Getenv("GOWP_LOOPS") != "" && fn.Prog != nil {
			fmt.Fprintf(os.Stderr, "loop %d of %s: head block %d at %v\n", i, fn.Name(), h.Index, fn.Prog.Fset.Position(lpos[h]))
		}
		fr.loops[h].ordinal = i
		for _, in := range h.Instrs {
			if p, ok := in.(*ssa.Phi); ok {
				fr.loops[h].phis = append(fr.loops[h].phis, p)
			}
		}
	}
	return fr
}

func loopPos(h *ssa.BasicBlock) token.Pos {
	// position of the earliest instruction inside the loop head or its body that has a position
	best := token.Pos(1 << 40)
	for _, in := range h.Instrs {
		if p := in.Pos(); p.IsValid() && p < best {
			best = p
		}
	}
	if best == token.Pos(1<<40) {
		for _, s := range h.Succs {
			for _, in := range s.Instrs {
				if p := in.Pos(); p.IsValid() && p < best {
					best = p
				}
			}
		}
	}
	return best
}

// ---------------------------------------------------------------------------------------------
// obligations

func (e *Enc) addObligation(kind, anchor string, reach T, goal T, desc string) *Obligation {
	if e.pass != 2 {
		return nil
	}
	fname := e.fnDisplayName()
	name := fname + "/" + kind
	if anchor != "" {
		name += "/" + anchor
	}
	n := e.oblNames[name]
	e.oblNames[name] = n + 1
	if n > 0 {
		name = fmt.Sprintf("%s#%d", name, n)
	}
	o := e.s.NewObligation(Obligation{Name: name, Kind: kind, Fn: fname, Goal: Imp(reach, goal), Desc: desc, Props: e.fc.Props})
	e.obls = append(e.obls, o)
	return o
}

func (e *Enc) addCover(anchor string, cond T, desc string) {
	if e.pass != 2 {
		return
	}
	fname := e.fnDisplayName()
	name := fname + "/cover/" + anchor
	n := e.oblNames[name]
	e.oblNames[name] = n + 1
	if n > 0 {
		name = fmt.Sprintf("%s#%d", name, n)
	}
	o := e.s.NewObligation(Obligation{Name: name, Kind: "cover", Fn: fname, Goal: cond, Cover: true, Desc: desc, Props: e.fc.Props})
	e.obls = append(e.obls, o)
}

func (e *Enc) fnDisplayName() string {
	return shortFnName(e.fn)
}

func shortFnName(fn *ssa.Function) string {
	s := fn.String()
	if fn.Pkg != nil {
		p := fn.Pkg.Pkg.Path()
		s = strings.ReplaceAll(s, p+".", fn.Pkg.Pkg.Name()+".")
	}
	return s
}

// ---------------------------------------------------------------------------------------------
// source text of SSA instructions (for stable, line-free obligation names)

func (e *Enc) srcText(pos token.Pos) string {
	if !pos.IsValid() || e.pkg == nil {
		return ""
	}
	return e.pkg.exprTextAt(pos)
}

func (lp *LoadedPkg) exprTextAt(pos token.Pos) string {
	if lp.posIndex == nil {
		lp.posIndex = map[token.Pos]ast.Node{}
		for _, f := range lp.Pkg.Syntax {
			ast.Inspect(f, func(n ast.Node) bool {
				switch x := n.(type) {
				case *ast.BinaryExpr:
					lp.posIndex[x.OpPos] = x
				case *ast.CallExpr:
					lp.posIndex[x.Lparen] = x
				case *ast.UnaryExpr:
					lp.posIndex[x.OpPos] = x
				case *ast.IncDecStmt:
					lp.posIndex[x.TokPos] = x
				case *ast.AssignStmt:
					if x.Tok != token.ASSIGN && x.Tok != token.DEFINE {
						lp.posIndex[x.TokPos] = x
					}
				case *ast.IndexExpr:
					lp.posIndex[x.Lbrack] = x
				case *ast.SliceExpr:
					lp.posIndex[x.Lbrack] = x
				}
				return true
			})
		}
	}
	n, ok := lp.posIndex[pos]
	if !ok {
		return ""
	}
	file := lp.Pkg.Fset.File(n.Pos())
	if file == nil {
		return ""
	}
	src := lp.fileSrc(file.Name())
	if src == nil {
		return ""
	}
	a, b := file.Offset(n.Pos()), file.Offset(n.End())
	if a < 0 || b > len(src) || a >= b {
		return ""
	}
	txt := strings.Join(strings.Fields(string(src[a:b])), "")
	if len(txt) > 70 {
		txt = txt[:70]
	}
	return txt
}

// ---------------------------------------------------------------------------------------------
// values

func (e *Enc) val(fr *Frame, v ssa.Value) Val {
	if fr.phiOverride != nil {
		if x, ok := fr.phiOverride[v]; ok {
			return x
		}
	}
	if x, ok := fr.vals[v]; ok {
		return x
	}
	switch c := v.(type) {
	case *ssa.Const:
		return e.constVal(c)
	case *ssa.Function:
		if c.Parent() != nil {
			e.siteFuncOperand(fr, c)
		}
		return &FuncV{Fn: c}
	case *ssa.Global:
		return &PtrV{A: Addr{Kind: AGlobal, G: c}, Elem: c.Type().(*types.Pointer).Elem()}
	case *ssa.FreeVar:
		for i, fv := range fr.fn.FreeVars {
			if fv == c {
				if i < len(fr.bind) {
					return fr.bind[i]
				}
			}
		}
		x := e.fresh(c.Type(), "freevar:"+c.Name())
		fr.vals[v] = x
		return x
	case *ssa.Builtin:
		return &FuncV{}
	}
	// a value from a block not yet processed (unreachable code or ordering issue)
	x := e.fresh(v.Type(), "undef:"+v.Name())
	fr.vals[v] = x
	return x
}

var strIDs = map[string]int64{}

func (e *Enc) constVal(c *ssa.Const) Val {
	t := c.Type()
	if c.Value == nil {
		// zero value / nil
		if b, ok := under(t).(*types.Basic); ok && b.Kind() == types.UntypedNil {
			return IntLit(0)
		}
		return e.zero(t)
	}
	switch {
	case isBoolType(t):
		if constant.BoolVal(c.Value) {
			return True
		}
		return False
	case isIntType(t):
		bi, ok := constant.Val(constant.ToInt(c.Value)).(*big.Int)
		if !ok {
			i64, _ := constant.Int64Val(constant.ToInt(c.Value))
			bi = big.NewInt(i64)
		}
		return IntBig(bi)
	case isStringType(t):
		s := constant.StringVal(c.Value)
		return e.stringConst(s)
	case isFloatType(t):
		e.declFloat()
		f, _ := constant.Float64Val(c.Value)
		name := e.s.DeclareFun(fmt.Sprintf("fconst:%v", f), nil, SF)
		e.floatConsts[name] = f
		return T{name, SF}
	}
	return e.fresh(t, "const")
}

func (e *Enc) stringConst(s string) T {
	id, ok := strIDs[s]
	if !ok {
		id = int64(len(strIDs) + 1)
		strIDs[s] = id
	}
	f := e.s.DeclareFun("strlen", []string{SInt}, SInt)
	t := IntLit(id)
	e.s.Raw(fmt.Sprintf("strlen:%d", id), fmt.Sprintf("(assert (= (%s %d) %d))", f, id, len(s)))
	return t
}

func (e *Enc) typeTag(t types.Type) T {
	k := typeKey(t)
	id, ok := e.eng.typeTags[k]
	if !ok {
		id = len(e.eng.typeTags) + 1
		e.eng.typeTags[k] = id
	}
	return IntLit(int64(id))
}

// ---------------------------------------------------------------------------------------------
// encoding a function body

// encodeBody encodes fr.fn starting with the given reach/state. Returns merged return state.
func (e *Enc) encodeBody(fr *Frame, entryReach T, entryState *State) {
	fn := fr.fn
	if len(fn.Blocks) == 0 {
		panic("encodeBody: no body for " + fn.String())
	}
	for _, b := range fr.rpo {
		var reach T
		var st *State
		li := fr.loops[b]
		if b == fn.Blocks[0] {
			reach = entryReach
			st = entryState.clone()
		} else {
			var conds []T
			var sts []*State
			var preds []*ssa.BasicBlock
			for _, p := range b.Preds {
				if li != nil && li.body[p] {
					continue // back edge (or edge from inside loop to head)
				}
				if _, done := fr.reach[p]; !done {
					continue // unreachable predecessor not in RPO
				}
				conds = append(conds, e.edgeCond(fr, p, b))
				sts = append(sts, fr.states[p])
				preds = append(preds, p)
			}
			if len(preds) == 0 {
				reach = False
				st = entryState.clone()
			} else {
				reach = e.s.Define(fmt.Sprintf("reach:%s.%d", fnTag(fr), b.Index), Or(conds...))
				st = e.mergeStates(conds, sts, fmt.Sprintf("%s.%d", fnTag(fr), b.Index))
			}
			// phis
			if li == nil {
				for _, in := range b.Instrs {
					phi, ok := in.(*ssa.Phi)
					if !ok {
						break
					}
					var v Val
					first := true
					for k := len(preds) - 1; k >= 0; k-- {
						p := preds[k]
						var pi int
						for j, bp := range b.Preds {
							if bp == p {
								pi = j
							}
						}
						ev := e.val(fr, phi.Edges[pi])
						if first {
							v = ev
							first = false
						} else {
							v = e.iteVal(conds[k], ev, v, phi.Type())
						}
					}
					if v == nil {
						v = e.fresh(phi.Type(), "phi")
					}
					fr.vals[phi] = e.nameVal(v, phi.Type(), "phi:"+phi.Name())
				}
			} else {
				e.enterLoop(fr, li, preds, conds, sts, &reach, &st)
			}
		}
		fr.startR[b] = reach
		fr.curB = b
		fr.curReach = reach
		fr.curState = st
		for i, in := range b.Instrs {
			fr.curI = i
			if _, ok := in.(*ssa.Phi); ok {
				continue
			}
			e.instr(fr, in)
		}
		fr.reach[b] = fr.curReach
		fr.states[b] = fr.curState
		// back edges: invariant preservation
		for _, s := range b.Succs {
			if sl := fr.loops[s]; sl != nil && sl.body[b] {
				e.backEdge(fr, sl, b)
			}
		}
	}
}

func fnTag(fr *Frame) string {
	if fr.depth == 0 {
		return "b"
	}
	return fmt.Sprintf("i%d.%s", fr.depth, fr.fn.Name())
}

// nameVal introduces definitions for the leaves of v so that terms stay small.
func (e *Enc) nameVal(v Val, t types.Type, hint string) Val {
	switch v.(type) {
	case *FuncV:
		return v
	case *PtrV:
		if v.(*PtrV).A.Kind != ARef {
			return v
		}
	case *IfaceV:
		iv := v.(*IfaceV)
		return &IfaceV{Tag: e.s.Define(hint+".tag", iv.Tag), Data: e.s.Define(hint+".data", iv.Data), Boxed: iv.Boxed, Dyn: iv.Dyn}
	case *SliceV:
		sv := v.(*SliceV)
		if sv.FromCell != nil {
			return v
		}
	}
	if _, ok := under(t).(*types.Struct); ok {
		sv, ok := v.(*StructV)
		if !ok {
			return v
		}
		st := under(t).(*types.Struct)
		out := &StructV{Typ: t}
		for i, f := range sv.F {
			out.F = append(out.F, e.nameVal(f, st.Field(i).Type(), fmt.Sprintf("%s.%s", hint, st.Field(i).Name())))
		}
		return out
	}
	if tv, ok := v.(*TupleV); ok {
		tt := t.(*types.Tuple)
		out := &TupleV{}
		for i, f := range tv.E {
			out.E = append(out.E, e.nameVal(f, tt.At(i).Type(), fmt.Sprintf("%s.%d", hint, i)))
		}
		return out
	}
	ts := e.flatten(v, t)
	for i := range ts {
		ts[i] = e.s.Define(hint, ts[i])
	}
	r, _ := e.unflatten(t, ts)
	return r
}

func (e *Enc) edgeCond(fr *Frame, p, b *ssa.BasicBlock) T {
	r := fr.reach[p]
	if len(p.Succs) == 2 {
		c, ok := fr.cond[p]
		if !ok {
			return r
		}
		if p.Succs[0] == b && p.Succs[1] == b {
			return r
		}
		if p.Succs[0] == b {
			return And(r, c)
		}
		return And(r, Not(c))
	}
	return r
}

// ---------------------------------------------------------------------------------------------
// loops

func (e *Enc) loopAnn(fr *Frame, li *loopInfo) *LoopAnn {
	if fr.isTop && e.fc != nil {
		if a, ok := e.fc.Loops[li.ordinal]; ok {
			return a
		}
		if e.fc.AllLoops != nil {
			return e.fc.AllLoops
		}
	} else if !fr.isTop {
		// inlined callee: use its own contract's loop annotations if any
		if fc := e.eng.contractFor(fr.fn); fc != nil {
			if a, ok := fc.Loops[li.ordinal]; ok {
				return a
			}
			if fc.AllLoops != nil {
				return fc.AllLoops
			}
		}
	}
	return nil
}

func (e *Enc) enterLoop(fr *Frame, li *loopInfo, preds []*ssa.BasicBlock, conds []T, sts []*State, reach *T, st **State) {
	ann := e.loopAnn(fr, li)
	if ann == nil {
		e.note(fmt.Sprintf("loop %d of %s has no annotation: treated as havoc", li.ordinal, shortFnName(fr.fn)))
		ann = &LoopAnn{Havoc: true}
	}
	li.ann = ann
	b := li.head
	// 1. invariant holds on entry (per entry edge)
	if len(ann.Invariants) > 0 {
		for k, p := range preds {
			ov := map[ssa.Value]Val{}
			pi := predIndex(b, p)
			for _, phi := range li.phis {
				ov[phi] = e.val(fr, phi.Edges[pi])
			}
			for j, inv := range ann.Invariants {
				ctx := &ExprCtx{e: e, fr: fr, st: sts[k], old: e.entry, block: b, idx: len(li.phis), phiOverride: ov, atLoopHead: li, fc: e.frameContract(fr)}
				g := ctx.boolExpr(inv.Expr)
				e.addObligation("inv-init", fmt.Sprintf("loop%d#%d", li.ordinal, j), conds[k], g, inv.Text)
			}
		}
	}
	// 1b. entry assertions: hold when the loop is first reached (per entry edge); not assumed
	if len(ann.Entries) > 0 {
		for k, p := range preds {
			ov := map[ssa.Value]Val{}
			pi := predIndex(b, p)
			for _, phi := range li.phis {
				ov[phi] = e.val(fr, phi.Edges[pi])
			}
			for j, ent := range ann.Entries {
				ctx := &ExprCtx{e: e, fr: fr, st: sts[k], old: e.entry, block: b, idx: len(li.phis), phiOverride: ov, atLoopHead: li, fc: e.frameContract(fr)}
				g := ctx.boolExpr(ent.Expr)
				e.addObligation("loop-entry", fmt.Sprintf("loop%d#%d", li.ordinal, j), conds[k], g, ent.Text)
			}
		}
	}
	// 2. havoc what the loop modifies
	mods := e.loopMods[b]
	if e.pass == 1 || mods == nil {
		// pass 1: record writes; conservatively havoc every known key
		if e.pass == 1 && e.loopModsTmp[b] == nil {
			e.loopModsTmp[b] = map[string]bool{}
		}
		for _, k := range sortedKeys((*st).m) {
			e.havocKey(*st, k, "loop")
		}
	} else {
		if os.Getenv("GOWP_LOOPS") != "" {
			fmt.Fprintf(os.Stderr, "loop %d of %s modifies: %v\n", li.ordinal, fr.fn.Name(), sortedKeys(mods))
		}
		for _, k := range sortedKeys(mods) {
			if _, ok := e.keySorts[k]; ok {
				e.get(*st, k, e.keySorts[k])
				e.havocKey(*st, k, "loop")
			}
		}
	}
	if e.pass == 1 {
		e.writeLogs = append(e.writeLogs, e.loopModsTmp[b])
		e.loopLogOwner = append(e.loopLogOwner, li)
	}
	li.headPhis = map[ssa.Value]Val{}
	for _, phi := range li.phis {
		v := e.fresh(phi.Type(), "loopphi:"+phi.Name()+":"+phi.Comment)
		fr.vals[phi] = v
		li.headPhis[phi] = v
		if c, ok := countingLoopLowerBound(b, phi); ok {
			// a counter that starts at a constant, is only ever incremented by a positive constant and
			// guards the loop with "counter < bound" cannot wrap: it never drops below its start
			if t, ok := v.(T); ok && t.Sort == SInt {
				e.s.Assume(Ge(t, IntLit(c)))
			}
		}
		if phi.Comment == "rangeindex" {
			// the hidden counter of a range-over-slice loop starts at -1 and only ever grows by
			// one while it is below a length: it is never below -1 (built-in invariant)
			if t, ok := v.(T); ok && t.Sort == SInt {
				e.s.Assume(Ge(t, IntLit(-1)))
			}
		}
	}
	if ann.Havoc && len(ann.Invariants) == 0 {
		e.note(fmt.Sprintf("loop %d of %s: havoc (no facts about state modified in the loop survive)", li.ordinal, shortFnName(fr.fn)))
	}
	// 3. assume invariants
	for _, inv := range ann.Invariants {
		ctx := &ExprCtx{e: e, fr: fr, st: *st, old: e.entry, block: b, idx: len(li.phis), atLoopHead: li, fc: e.frameContract(fr)}
		g := ctx.boolExpr(inv.Expr)
		e.s.Assume(Imp(*reach, g))
	}
	li.headState = (*st).clone()
}

func predIndex(b, p *ssa.BasicBlock) int {
	for j, bp := range b.Preds {
		if bp == p {
			return j
		}
	}
	return 0
}

func (e *Enc) backEdge(fr *Frame, li *loopInfo, from *ssa.BasicBlock) {
	if e.pass == 1 {
		// close write log when the last back edge is processed
		last := true
		for _, bk := range li.backs {
			if _, done := fr.reach[bk]; !done {
				last = false
			}
		}
		if last {
			for i, o := range e.loopLogOwner {
				if o == li {
					e.writeLogs = append(e.writeLogs[:i], e.writeLogs[i+1:]...)
					e.loopLogOwner = append(e.loopLogOwner[:i], e.loopLogOwner[i+1:]...)
					break
				}
			}
		}
	}
	if li.ann != nil && len(li.ann.Steps) > 0 {
		cond := e.edgeCond(fr, from, li.head)
		ov := map[ssa.Value]Val{}
		pi := predIndex(li.head, from)
		for _, phi := range li.phis {
			ov[phi] = e.val(fr, phi.Edges[pi])
		}
		for j, stp := range li.ann.Steps {
			ctx := &ExprCtx{e: e, fr: fr, st: fr.states[from], old: li.headState, block: from, idx: len(from.Instrs), phiOverride: ov, atLoopHead: li, fc: e.fc, stepLoop: li}
			g := e.safeBool(ctx, stp, "loop step")
			e.addObligation("step", fmt.Sprintf("loop%d#%d", li.ordinal, j), cond, g, stp.Text)
		}
	}
	if li.ann == nil || len(li.ann.Invariants) == 0 {
		return
	}
	cond := e.edgeCond(fr, from, li.head)
	ov := map[ssa.Value]Val{}
	pi := predIndex(li.head, from)
	for _, phi := range li.phis {
		ov[phi] = e.val(fr, phi.Edges[pi])
	}
	for j, inv := range li.ann.Invariants {
		ctx := &ExprCtx{e: e, fr: fr, st: fr.states[from], old: e.entry, block: li.head, idx: len(li.phis), phiOverride: ov, atLoopHead: li, fc: e.frameContract(fr)}
		g := ctx.boolExpr(inv.Expr)
		e.addObligation("inv-pres", fmt.Sprintf("loop%d#%d", li.ordinal, j), cond, g, inv.Text)
	}
}

// frameContract: the contract whose lets / loop annotations apply to a frame.
func (e *Enc) frameContract(fr *Frame) *FuncContract {
	if fr.isTop {
		return e.fc
	}
	return e.eng.contractFor(fr.fn)
}

// countingLoopLowerBound recognises the header phi of "for i := c; i < n; i += d" (c, d constants,
// d > 0, i of a signed or unsigned integer type) and returns c.
func countingLoopLowerBound(head *ssa.BasicBlock, phi *ssa.Phi) (int64, bool) {
	bt, ok := phi.Type().Underlying().(*types.Basic)
	if !ok || bt.Info()&types.IsInteger == 0 || len(phi.Edges) != 2 {
		return 0, false
	}
	var start int64
	haveStart, haveStep := false, false
	for _, ed := range phi.Edges {
		switch x := ed.(type) {
		case *ssa.Const:
			if x.Value == nil || x.Value.Kind() != constant.Int {
				return 0, false
			}
			v, exact := constant.Int64Val(x.Value)
			if !exact {
				return 0, false
			}
			start, haveStart = v, true
		case *ssa.BinOp:
			if x.Op != token.ADD || x.X != phi {
				return 0, false
			}
			c, ok := x.Y.(*ssa.Const)
			if !ok || c.Value == nil || c.Value.Kind() != constant.Int {
				return 0, false
			}
			d, exact := constant.Int64Val(c.Value)
			if !exact || d <= 0 {
				return 0, false
			}
			haveStep = true
		default:
			return 0, false
		}
	}
	if !haveStart || !haveStep {
		return 0, false
	}
	// the header must end in "if phi < bound"
	if len(head.Instrs) == 0 {
		return 0, false
	}
	ifi, ok := head.Instrs[len(head.Instrs)-1].(*ssa.If)
	if !ok {
		return 0, false
	}
	cmp, ok := ifi.Cond.(*ssa.BinOp)
	if !ok || cmp.Op != token.LSS || cmp.X != phi {
		return 0, false
	}
	return start, true
}
