package main

import (
	"fmt"
	"regexp"
	"go/ast"
	"go/token"
	"go/types"
	"os"
	"path/filepath"
	"runtime/debug"
	"sort"
	"strconv"
	"strings"

	"golang.org/x/tools/go/packages"
	"golang.org/x/tools/go/ssa"
	"golang.org/x/tools/go/ssa/ssautil"
)

// repoRoot is /repo for every registered check; GOWP_REPO lets the (long) mutant self-test run on a
// scratch worktree of the same commit while contracts in /repo are being edited.
var repoRoot = func() string {
	if r := os.Getenv("GOWP_REPO"); r != "" {
		return r
	}
	return "/repo"
}()

type LoadedPkg struct {
	Pkg           *packages.Package
	SSA           *ssa.Package
	importAliases map[string]string
	posIndex      map[token.Pos]ast.Node
	srcs          map[string][]byte
	overlay       map[string][]byte
}

type Engine struct {
	contractFiles []*ContractFile
	contracts     map[string]*FuncContract // by qualified key
	specs         map[string]*SpecFunc     // pkgpath:name
	lemmas        []*Lemma
	effectFree    []string
	nonNilResult  map[string]bool
	localExtern   map[string]map[string]*FuncContract
	inlinePkgs    map[string]bool
	pkgByPath     map[string]*LoadedPkg
	prog          *ssa.Program
	typeTags      map[string]int
	modSets       map[*ssa.Function]*ModSet
	overlay       map[string][]byte
	tier          string
	inlineFuncs   []string
	sentinels     map[string]int
	quantMode     string
	constGlobals     map[*ssa.Global]*ssa.Const
	constGlobalsDone map[*ssa.Global]bool
}

func (eng *Engine) sentinelID(name string) int {
	if eng.sentinels == nil {
		eng.sentinels = map[string]int{}
	}
	id, ok := eng.sentinels[name]
	if !ok {
		id = 1000003 + len(eng.sentinels)
		eng.sentinels[name] = id
	}
	return id
}

var defaultEffectFree = []string{
	"(github.com/btcsuite/btclog/v2.Logger).*",
	"(github.com/btcsuite/btclog.Logger).*",
	"fmt.Sprintf", "fmt.Sprint", "fmt.Sprintln", "fmt.Errorf", "fmt.Printf", "fmt.Println",
	"errors.New",
	"github.com/davecgh/go-spew/spew.*",
	"github.com/lightningnetwork/lnd/lnutils.SpewLogClosure",
	"github.com/lightningnetwork/lnd/lnutils.NewLogClosure",
	"github.com/lightningnetwork/lnd/lnutils.LogPubKey",
	"time.Now", "time.Since",
	"(*sync.Mutex).Lock", "(*sync.Mutex).Unlock",
	"(*sync.RWMutex).Lock", "(*sync.RWMutex).Unlock", "(*sync.RWMutex).RLock", "(*sync.RWMutex).RUnlock",
	"(*sync.WaitGroup).Add", "(*sync.WaitGroup).Done", "(*sync.WaitGroup).Wait",
	"(*sync/atomic.Uint64).Add", "(*sync/atomic.Int32).Add",
	"github.com/lightningnetwork/lnd/build.*",
	"encoding/hex.EncodeToString",
}

func NewEngine() *Engine {
	return &Engine{contracts: map[string]*FuncContract{}, specs: map[string]*SpecFunc{},
		nonNilResult: map[string]bool{"fmt.Errorf": true, "errors.New": true},
		inlinePkgs:   map[string]bool{"github.com/lightningnetwork/lnd/fn/v2": true},
		pkgByPath:    map[string]*LoadedPkg{}, typeTags: map[string]int{}, modSets: map[*ssa.Function]*ModSet{},
		effectFree: append([]string{}, defaultEffectFree...)}
}

func (eng *Engine) isEffectFree(key string) bool {
	if key == "" {
		return false
	}
	for _, p := range eng.effectFree {
		if strings.HasSuffix(p, "*") {
			if strings.HasPrefix(key, p[:len(p)-1]) {
				return true
			}
		} else if p == key {
			return true
		}
	}
	return false
}

func (eng *Engine) inlinePkg(fn *ssa.Function) bool {
	if o := fn.Origin(); o != nil {
		fn = o
	}
	if fn.Pkg == nil {
		return false
	}
	if eng.inlinePkgs[fn.Pkg.Pkg.Path()] {
		return true
	}
	key := fn.String()
	for _, p := range eng.inlineFuncs {
		if strings.HasSuffix(p, "*") {
			if strings.HasPrefix(key, p[:len(p)-1]) {
				return true
			}
		} else if p == key {
			return true
		}
	}
	return false
}

func (eng *Engine) contractFor(fn *ssa.Function) *FuncContract {
	return eng.contracts[funcKey(fn)]
}

func (eng *Engine) specFunc(pkgPath, name string) *SpecFunc {
	if sf, ok := eng.specs[pkgPath+":"+name]; ok {
		return sf
	}
	// spec functions are also visible across packages by bare name if unique
	var found *SpecFunc
	for k, sf := range eng.specs {
		if strings.HasSuffix(k, ":"+name) {
			if found != nil {
				return nil
			}
			found = sf
		}
	}
	return found
}

func (eng *Engine) globalFor(v *types.Var) *ssa.Global {
	if eng.prog == nil || v.Pkg() == nil {
		return nil
	}
	p := eng.prog.Package(v.Pkg())
	if p == nil {
		return nil
	}
	return p.Var(v.Name())
}

func (eng *Engine) findMethod(t types.Type, name string) *ssa.Function {
	ms := eng.prog.MethodSets.MethodSet(t)
	for i := 0; i < ms.Len(); i++ {
		sel := ms.At(i)
		if sel.Obj().Name() == name {
			return eng.prog.MethodValue(sel)
		}
	}
	// try pointer receiver
	if _, ok := t.(*types.Pointer); !ok {
		ms = eng.prog.MethodSets.MethodSet(types.NewPointer(t))
		for i := 0; i < ms.Len(); i++ {
			sel := ms.At(i)
			if sel.Obj().Name() == name {
				return eng.prog.MethodValue(sel)
			}
		}
	}
	return nil
}

// ---------------------------------------------------------------------------------------------
// contract discovery

// module directories inside /repo that have their own go.mod and no replace in lnd's go.mod are
// loaded from their own directory.
func moduleDirFor(dir string) string {
	d := dir
	for {
		if _, err := os.Stat(filepath.Join(d, "go.mod")); err == nil {
			return d
		}
		if d == repoRoot || d == "/" {
			return repoRoot
		}
		d = filepath.Dir(d)
	}
}

func (eng *Engine) discoverContracts() error {
	var files []string
	err := filepath.Walk(repoRoot, func(path string, info os.FileInfo, err error) error {
		if err != nil {
			return nil
		}
		if info.IsDir() {
			n := info.Name()
			if n == ".git" || n == "vendor" || n == "node_modules" || n == "docs" {
				return filepath.SkipDir
			}
			return nil
		}
		if info.Name() == "zz_verif_contracts.go" {
			files = append(files, path)
		}
		return nil
	})
	if err != nil {
		return err
	}
	sort.Strings(files)
	for _, f := range files {
		data, ok := eng.overlay[f]
		_ = data
		_ = ok
		pkgPath, err := pkgPathOfDir(filepath.Dir(f))
		if err != nil {
			return err
		}
		cf, err := ParseContractFile(f, pkgPath)
		if err != nil {
			return err
		}
		eng.contractFiles = append(eng.contractFiles, cf)
		for _, sf := range cf.Specs {
			eng.specs[pkgPath+":"+sf.Name] = sf
		}
		for _, lm := range cf.Lemmas {
			eng.lemmas = append(eng.lemmas, lm)
		}
		eng.effectFree = append(eng.effectFree, cf.EffectFree...)
		for _, p := range cf.InlinePkgs {
			eng.inlinePkgs[p] = true
		}
		eng.inlineFuncs = append(eng.inlineFuncs, cf.InlineFuncs...)
	}
	return nil
}

func pkgPathOfDir(dir string) (string, error) {
	mod := moduleDirFor(dir)
	data, err := os.ReadFile(filepath.Join(mod, "go.mod"))
	if err != nil {
		return "", err
	}
	var modPath string
	for _, l := range strings.Split(string(data), "\n") {
		if strings.HasPrefix(l, "module ") {
			modPath = strings.TrimSpace(strings.TrimPrefix(l, "module "))
			break
		}
	}
	rel, err := filepath.Rel(mod, dir)
	if err != nil {
		return "", err
	}
	if rel == "." {
		return modPath, nil
	}
	return modPath + "/" + filepath.ToSlash(rel), nil
}

// resolve contract keys once packages are loaded.
func (eng *Engine) setLocalExtern(pkg, key string, fc *FuncContract) {
	if eng.localExtern == nil {
		eng.localExtern = map[string]map[string]*FuncContract{}
	}
	if eng.localExtern[pkg] == nil {
		eng.localExtern[pkg] = map[string]*FuncContract{}
	}
	eng.localExtern[pkg][key] = fc
}

// contractAt: the contract that applies to a call of key made from package pkg.
func (eng *Engine) contractAt(pkg, key string) *FuncContract {
	if m := eng.localExtern[pkg]; m != nil {
		if fc := m[key]; fc != nil {
			return fc
		}
	}
	return eng.contracts[key]
}

func (eng *Engine) resolveContracts() error {
	for _, cf := range eng.contractFiles {
		lp := eng.pkgByPath[cf.PkgPath]
		for _, fc := range cf.Funcs {
			key, err := eng.contractKey(cf, lp, fc)
			if err != nil {
				if lp == nil {
					continue // package not loaded in this run
				}
				if fc.Extern && strings.Contains(err.Error(), "unknown package") {
					// an assumed contract on a dependency the package no longer imports: there is no call
					// it could apply to, and nothing is proved from it
					continue
				}
				return err
			}
			if key == "" {
				continue
			}
			if old, dup := eng.contracts[key]; dup && old != fc {
				// an extern (assumed) view of a function that also has a verified contract in its
				// own package: the extern view applies to calls from the package that states it
				switch {
				case fc.Extern && !old.Extern:
					eng.setLocalExtern(fc.PkgPath, key, fc)
					continue
				case old.Extern && !fc.Extern:
					eng.setLocalExtern(old.PkgPath, key, old)
				default:
					return fmt.Errorf("duplicate contract for %s (%s and %s)", key, old.File, fc.File)
				}
			}
			eng.contracts[key] = fc
		}
	}
	return nil
}

func (eng *Engine) contractKey(cf *ContractFile, lp *LoadedPkg, fc *FuncContract) (string, error) {
	qual := func(name string) (string, error) {
		// name may be pkg.Name or Name
		if i := strings.Index(name, "."); i >= 0 {
			pn, rest := name[:i], name[i+1:]
			if lp == nil {
				return "", fmt.Errorf("package %s not loaded", cf.PkgPath)
			}
			path := lp.importPath(pn)
			if path == "" {
				return "", fmt.Errorf("%s: unknown package %q in contract header %q", cf.Path, pn, fc.Header)
			}
			return path + "." + rest, nil
		}
		return cf.PkgPath + "." + name, nil
	}
	if fc.Recv == "" {
		return qual(fc.Name)
	}
	ptr := strings.HasPrefix(fc.Recv, "*")
	tn, err := qual(strings.TrimPrefix(fc.Recv, "*"))
	if err != nil {
		return "", err
	}
	if ptr {
		return "(*" + tn + ")." + fc.Name, nil
	}
	return "(" + tn + ")." + fc.Name, nil
}

func (lp *LoadedPkg) importPath(name string) string {
	if p, ok := lp.importAliases[name]; ok {
		return p
	}
	for path, imp := range lp.Pkg.Imports {
		if imp.Name == name {
			return path
		}
		_ = path
	}
	for _, imp := range lp.Pkg.Types.Imports() {
		if imp.Name() == name {
			return imp.Path()
		}
	}
	return ""
}

func (lp *LoadedPkg) fileSrc(name string) []byte {
	if lp.srcs == nil {
		lp.srcs = map[string][]byte{}
	}
	if s, ok := lp.srcs[name]; ok {
		return s
	}
	data, ok := lp.overlay[name]
	if !ok {
		var err error
		data, err = os.ReadFile(name)
		if err != nil {
			data = nil
		}
	}
	lp.srcs[name] = data
	return data
}

// ---------------------------------------------------------------------------------------------
// loading

func (eng *Engine) load(pkgPaths []string) error {
	// group by module dir
	byMod := map[string][]string{}
	replaced := replacedModuleDirs()
	for _, p := range pkgPaths {
		dir := eng.dirOfPkg(p)
		mod := repoRoot
		if dir != "" {
			mod = moduleDirFor(dir)
			if replaced[mod] {
				// module replaced by a local directory in lnd's go.mod: part of the main build
				mod = repoRoot
			}
		}
		byMod[mod] = append(byMod[mod], p)
	}
	var all []*packages.Package
	for mod, paths := range byMod {
		cfg := &packages.Config{
			Mode:       packages.NeedName | packages.NeedFiles | packages.NeedCompiledGoFiles | packages.NeedImports | packages.NeedTypes | packages.NeedTypesSizes | packages.NeedSyntax | packages.NeedTypesInfo | packages.NeedDeps,
			Dir:        mod,
			BuildFlags: []string{"-tags=verif"},
			Overlay:    eng.overlay,
			Env:        append(os.Environ(), "GOFLAGS=-mod=mod", "GOPROXY=off", "GOTOOLCHAIN=local"),
		}
		cfg.Mode = packages.LoadSyntax
		pkgs, err := packages.Load(cfg, paths...)
		if err != nil {
			return fmt.Errorf("load %v: %v", paths, err)
		}
		for _, p := range pkgs {
			if len(p.Errors) > 0 {
				return fmt.Errorf("package %s: %v", p.PkgPath, p.Errors[0])
			}
		}
		all = append(all, pkgs...)
	}
	prog, spkgs := ssautil.Packages(all, ssa.InstantiateGenerics|ssa.GlobalDebug)
	prog.Build()
	eng.prog = prog
	for i, p := range all {
		lp := &LoadedPkg{Pkg: p, SSA: spkgs[i], importAliases: map[string]string{}, overlay: eng.overlay}
		for _, f := range p.Syntax {
			for _, imp := range f.Imports {
				path, _ := strconv.Unquote(imp.Path.Value)
				if imp.Name != nil {
					lp.importAliases[imp.Name.Name] = path
				}
			}
		}
		eng.pkgByPath[p.PkgPath] = lp
	}
	return nil
}

// replacedModuleDirs: module directories under /repo that lnd's go.mod replaces with local paths.
func replacedModuleDirs() map[string]bool {
	out := map[string]bool{}
	data, err := os.ReadFile(filepath.Join(repoRoot, "go.mod"))
	if err != nil {
		return out
	}
	for _, l := range strings.Split(string(data), "\n") {
		f := strings.Fields(l)
		if len(f) == 4 && f[0] == "replace" && f[2] == "=>" && strings.HasPrefix(f[3], "./") {
			out[filepath.Join(repoRoot, f[3])] = true
		}
	}
	return out
}

func replacedModulePaths() map[string]string {
	out := map[string]string{}
	data, err := os.ReadFile(filepath.Join(repoRoot, "go.mod"))
	if err != nil {
		return out
	}
	for _, l := range strings.Split(string(data), "\n") {
		f := strings.Fields(l)
		if len(f) == 4 && f[0] == "replace" && f[2] == "=>" && strings.HasPrefix(f[3], "./") {
			out[f[1]] = filepath.Join(repoRoot, f[3])
		}
	}
	return out
}

func (eng *Engine) dirOfPkg(path string) string {
	for _, cf := range eng.contractFiles {
		if cf.PkgPath == path {
			return filepath.Dir(cf.Path)
		}
	}
	for mod, dir := range replacedModulePaths() {
		if path == mod {
			return dir
		}
		if strings.HasPrefix(path, mod+"/") {
			d := filepath.Join(dir, strings.TrimPrefix(path, mod+"/"))
			if _, err := os.Stat(d); err == nil {
				return d
			}
		}
	}
	const lnd = "github.com/lightningnetwork/lnd"
	if strings.HasPrefix(path, lnd+"/") {
		d := filepath.Join(repoRoot, strings.TrimPrefix(path, lnd+"/"))
		if _, err := os.Stat(d); err == nil {
			return d
		}
	}
	return ""
}

// ---------------------------------------------------------------------------------------------
// finding functions

func (eng *Engine) findFunction(key string) *ssa.Function {
	for fn := range ssautil.AllFunctions(eng.prog) {
		if fn.String() == key && fn.Origin() == nil {
			return fn
		}
	}
	return nil
}

// ---------------------------------------------------------------------------------------------
// encoding a function under contract (multi-pass driver)

type encResult struct {
	enc *Enc
	err error
}

func (eng *Engine) encodeFunction(lp *LoadedPkg, fn *ssa.Function, fc *FuncContract) (res *Enc, err error) {
	defer func() {
		if r := recover(); r != nil {
			if os.Getenv("GOWP_DEBUG") != "" {
				debug.PrintStack()
			}
			err = fmt.Errorf("encoding %s: %v", fn, r)
		}
	}()
	escaped := map[*ssa.Alloc]string{}
	universe := map[string]bool{}
	keySorts := map[string]string{}
	for iter := 0; iter < 8; iter++ {
		e1 := eng.newEnc(lp, fn, fc, 1, escaped, universe, keySorts, nil)
		e1.run()
		if e1.escapedGrew {
			continue
		}
		e2 := eng.newEnc(lp, fn, fc, 2, escaped, universe, keySorts, e1.loopModsTmp)
		e2.run()
		if e2.escapedGrew || e2.universeGrew {
			continue
		}
		return e2, nil
	}
	return nil, fmt.Errorf("encoding %s: did not stabilise", fn)
}

func (eng *Engine) newEnc(lp *LoadedPkg, fn *ssa.Function, fc *FuncContract, pass int, escaped map[*ssa.Alloc]string, universe map[string]bool, keySorts map[string]string, loopMods map[*ssa.BasicBlock]map[string]bool) *Enc {
	e := &Enc{eng: eng, s: NewScript(), fn: fn, fc: fc, pkg: lp, pass: pass,
		entry: newState(), universe: universe, keySorts: keySorts, rangeSeen: map[string]bool{}, cellStatic: map[string]Val{},
		cells: map[*ssa.Alloc]int{}, fldIDs: map[string]int{}, escaped: escaped, loopMods: loopMods, oblNames: map[string]int{}, assumps: map[string]bool{},
		siteHits: map[*Site]int{}, siteSeen: map[*Site]int{}, quantFns: map[string]string{}, callResult: map[ssa.Instruction]TV{}, callResultPre: map[ssa.Instruction]TV{}, siteInstrs: map[*Site][]ssa.Instruction{}, compositeKeys: map[string][]compKey{}, arrViews: map[string]arrViewInfo{}, retVals: map[string][]TV{}, loopModsTmp: map[*ssa.BasicBlock]map[string]bool{},
		floatConsts: map[string]float64{}, floatOpsUsed: map[string]bool{}, cellInst: map[*ssa.Alloc]int{},
		assumpEffectFree: map[string]bool{}, usedExterns: map[string]*FuncContract{}, closureSiteDone: map[*ssa.Function]bool{}, funcOperandDone: map[*ssa.Function]bool{}}
	e.declFloat()
	return e
}

func (e *Enc) run() {
	fn := e.fn
	if e.pass == 2 {
		for _, k := range sortedKeys(e.universe) {
			if strings.HasPrefix(k, "c:") {
				continue
			}
			e.entryKey(k, e.keySorts[k])
		}
	}
	if e.fc != nil {
		for _, u := range e.fc.Uses {
			if !strings.Contains(u, "(") {
				e.useLemma(u, nil, nil)
			}
		}
	}
	fr := e.newFrame(fn, nil)
	fr.isTop = true
	e.top = fr
	for _, p := range fn.Params {
		v := e.fresh(p.Type(), "p:"+p.Name())
		fr.vals[p] = v
		e.collectParamRefs(v)
	}
	entry := e.entry.clone()
	if e.fc != nil && e.fc.Covers {
		e.keySorts["ghost:sitehit"] = SBool
		e.universe["ghost:sitehit"] = true
		entry.m["ghost:sitehit"] = False
		e.entry.m["ghost:sitehit"] = False
	}
	// ghost "called(name)" flags mentioned by the contract start out false
	for _, n := range e.calledNames() {
		k := "ghost:called:" + n
		e.keySorts[k] = SBool
		e.universe[k] = true
		entry.m[k] = False
		e.entry.m[k] = False
	}
	fr.curState = entry
	fr.curReach = True
	// preconditions
	if e.fc != nil {
		ctx := &ExprCtx{e: e, fr: fr, st: entry, old: entry, fc: e.fc}
		var pres []T
		for _, rq := range e.fc.Requires {
			g := e.safeBool(ctx, rq, "requires")
			e.s.Assume(g)
			pres = append(pres, g)
		}
		e.addCover("pre", True, "precondition is satisfiable")
		// instantiated lemmas: uses NAME(args) with args evaluated in the entry state
		for _, u := range e.fc.Uses {
			if strings.Contains(u, "(") {
				x, err := parseCExpr(u)
				if err != nil {
					panic(err.Error())
				}
				call, ok := x.(CCall)
				if !ok {
					panic("uses: NAME(args) expected: " + u)
				}
				e.useLemma(cexprString(call.Fun), call.Args, ctx)
			}
		}
	}
	e.encodeBody(fr, True, entry)
	if e.fc != nil {
		var rs []T
		for _, r := range fr.rets {
			rs = append(rs, r.reach)
		}
		e.addCover("return", Or(rs...), "some return is reachable under the precondition")
		for i := range e.fc.Sites {
			st := &e.fc.Sites[i]
			if e.siteHits[st] == 0 {
				e.anchorMissing = append(e.anchorMissing, e.fnDisplayName()+": site "+e.siteLabel(st)+" matched nothing")
			}
		}
		e.buildReplaySpec()
	}
}

func (e *Enc) collectParamRefs(v Val) {
	switch x := v.(type) {
	case *PtrV:
		if x.A.Kind == ARef {
			e.paramRefs = append(e.paramRefs, x.A.Base)
		}
	case *StructV:
		for _, f := range x.F {
			e.collectParamRefs(f)
		}
	}
}

// useLemma assumes a lemma/axiom: quantified over its parameters (args == nil) or instantiated.
func (e *Enc) useLemma(name string, args []CExpr, ctx *ExprCtx) {
	for _, lm := range e.eng.lemmas {
		if lm.Name != name {
			continue
		}
		if args == nil {
			e.assumeLemma(lm)
			return
		}
		if len(args) != len(lm.Params) {
			panic("uses " + name + ": wrong number of arguments")
		}
		bound := map[string]TV{}
		for i, p := range lm.Params {
			tv := ctx.expr(args[i])
			t, ok := tv.V.(T)
			if !ok {
				t = e.scalar(tv.V)
			}
			var typ types.Type
			if p.Typ == "bool" {
				typ = types.Typ[types.Bool]
			}
			bound[p.Name] = TV{V: t, Typ: typ}
		}
		var pkg *types.Package
		if lp := e.eng.pkgByPath[lm.Pkg]; lp != nil {
			pkg = lp.Pkg.Types
		}
		lctx := &ExprCtx{e: e, st: e.entry, old: e.entry, bound: bound, pkg: pkg}
		body := lctx.boolExpr(lm.Body.Expr)
		if lm.BV {
			body = Imp(bvParamRanges(lm, bound), body)
		}
		e.s.Assume(body)
		if lm.Axiom {
			e.note("axiom (assumed, instantiated): " + lm.Name + ": " + lm.Body.Text)
		} else {
			e.note("lemma instance used as a fact (proved separately as " + lastPathElem(lm.Pkg) + ".lemma/" + lm.Name + ")")
		}
		return
	}
	panic("uses: unknown lemma/axiom " + name)
}

// constGlobal: the constant a package-level variable is initialised with, provided no function of
// its package other than init assigns it.
func (eng *Engine) constGlobal(g *ssa.Global) *ssa.Const {
	if eng.constGlobals == nil {
		eng.constGlobals = map[*ssa.Global]*ssa.Const{}
		eng.constGlobalsDone = map[*ssa.Global]bool{}
	}
	if eng.constGlobalsDone[g] {
		return eng.constGlobals[g]
	}
	eng.constGlobalsDone[g] = true
	pkg := g.Pkg
	if pkg == nil {
		return nil
	}
	var initVal *ssa.Const
	ok := true
	var scan func(fn *ssa.Function, isInit bool)
	scan = func(fn *ssa.Function, isInit bool) {
		for _, b := range fn.Blocks {
			for _, in := range b.Instrs {
				switch x := in.(type) {
				case *ssa.Store:
					if x.Addr == ssa.Value(g) {
						c, isC := x.Val.(*ssa.Const)
						if isInit && isC && initVal == nil {
							initVal = c
						} else {
							ok = false
						}
					}
				default:
					// address of the global taken for anything but a load
					for _, op := range in.Operands(nil) {
						if *op == ssa.Value(g) {
							if u, isLoad := in.(*ssa.UnOp); isLoad && u.X == ssa.Value(g) {
								continue
							}
							if _, isDbg := in.(*ssa.DebugRef); isDbg {
								continue
							}
							ok = false
						}
					}
				}
			}
		}
		for _, a := range fn.AnonFuncs {
			scan(a, false)
		}
	}
	for _, m := range pkg.Members {
		if fn, isFn := m.(*ssa.Function); isFn {
			scan(fn, fn.Name() == "init")
		}
		if tp, isT := m.(*ssa.Type); isT {
			ms := eng.prog.MethodSets.MethodSet(tp.Type())
			for i := 0; i < ms.Len(); i++ {
				if f := eng.prog.MethodValue(ms.At(i)); f != nil && f.Pkg == pkg {
					scan(f, false)
				}
			}
			ms = eng.prog.MethodSets.MethodSet(types.NewPointer(tp.Type()))
			for i := 0; i < ms.Len(); i++ {
				if f := eng.prog.MethodValue(ms.At(i)); f != nil && f.Pkg == pkg {
					scan(f, false)
				}
			}
		}
	}
	if ok && initVal != nil {
		eng.constGlobals[g] = initVal
	}
	return eng.constGlobals[g]
}

var calledRe = regexp.MustCompile(`called\(([A-Za-z0-9_]+)(?:\s*,\s*([0-9]+))?\)`)

// calledNames: callee names used in called(...) anywhere in the function's contract.
func (e *Enc) calledNames() []string {
	if e.fc == nil {
		return nil
	}
	seen := map[string]bool{}
	var out []string
	add := func(text string) {
		for _, m := range calledRe.FindAllStringSubmatch(text, -1) {
			n := m[1]
			if m[2] != "" {
				// called(name, k): the k-th call of name (source order) has been executed
				n += "#" + m[2]
			}
			if !seen[n] {
				seen[n] = true
				out = append(out, n)
			}
		}
	}
	for _, c := range e.fc.Ensures {
		add(c.Text)
	}
	for _, st := range e.fc.Sites {
		add(st.Assert.Text)
	}
	for _, l := range e.fc.Lets {
		add(l.Expr.Text)
	}
	for _, la := range e.fc.Loops {
		for _, c := range la.Invariants {
			add(c.Text)
		}
		for _, c := range la.Steps {
			add(c.Text)
		}
	}
	sort.Strings(out)
	return out
}
