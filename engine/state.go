package main

// Heap state: a map from heap keys (one per struct field / pointee type / local cell / global) to
// the SMT term currently denoting that part of memory.

import (
	"fmt"
	"go/types"
	"sort"
	"strings"
)

type State struct {
	m map[string]T
}

func newState() *State { return &State{m: map[string]T{}} }

func (s *State) clone() *State {
	n := &State{m: make(map[string]T, len(s.m))}
	for k, v := range s.m {
		n.m[k] = v
	}
	return n
}

// key kinds by prefix:
//   f:<S>.<field><leafpath>   (Array Int leaf)         struct field, indexed by address of the struct
//   p:<T><leafpath>           (Array Int leaf)         pointee of a generic *T
//   e:<T><leafpath>           (Array Int (Array Int leaf))   slice/array storage, by storage ref then index
//   c:<id><path>              leaf                     local cell
//   g:<name><leafpath>        leaf                     global
//   ghost:<name>              Bool/Int


// get returns the current term for key in st; creating the entry-state symbol when the key is seen
// for the first time (universe is fixed after pass 1).
func (e *Enc) get(st *State, key, sortOfKey string) T {
	if t, ok := st.m[key]; ok {
		return t
	}
	e.keySorts[key] = sortOfKey
	if !e.universe[key] {
		e.universe[key] = true
		if e.pass == 2 && !strings.HasPrefix(key, "c:") {
			// discovered late: the pass must be repeated with the enlarged universe
			e.universeGrew = true
		}
	}
	ent := e.entryKey(key, sortOfKey)
	st.m[key] = ent
	return ent
}

func (e *Enc) entryKey(key, sortOfKey string) T {
	if t, ok := e.entry.m[key]; ok {
		return t
	}
	var t T
	if strings.HasPrefix(key, "c:") {
		// cells have no meaningful entry value; allocation sets them
		t = e.s.Const("H0:"+key, sortOfKey)
	} else {
		name := e.s.DeclareFun("H0:"+key, nil, sortOfKey)
		t = T{name, sortOfKey}
	}
	e.entry.m[key] = t
	return t
}

// markRefKey: the entry value of a heap key that holds references (pointers, maps, slice bases,
// interface data words) only holds references to objects that existed on entry ("old"); objects
// allocated by the function under verification are not old (newAllocRef). This is what makes a
// fresh allocation distinct from everything reachable in the entry heap.
func (e *Enc) markRefKey(key string, lf leaf) {
	if lf.kind != "ref" && lf.kind != "base" && lf.kind != "data" {
		return
	}
	if strings.HasPrefix(key, "c:") || strings.HasPrefix(key, "ghost:") || e.s.declSet["oldax:"+key] {
		return
	}
	srt, ok := e.keySorts[key]
	if !ok {
		return
	}
	e.s.declSet["oldax:"+key] = true
	h := e.entryKey(key, srt)
	old := e.s.DeclareFun("isold", []string{SInt}, SBool)
	switch srt {
	case SInt:
		e.s.decls = append(e.s.decls, fmt.Sprintf("(assert (%s %s))", old, h.S))
	case arrSort(SInt, SInt):
		e.s.decls = append(e.s.decls, fmt.Sprintf("(assert (forall ((|ox| Int)) (! (%s (select %s |ox|)) :pattern ((select %s |ox|)))))", old, h.S, h.S))
	case arrSort(SInt, arrSort(SInt, SInt)):
		e.s.decls = append(e.s.decls, fmt.Sprintf("(assert (forall ((|ox| Int) (|oy| Int)) (! (%s (select (select %s |ox|) |oy|)) :pattern ((select (select %s |ox|) |oy|)))))", old, h.S, h.S))
	}
}

// mergeStates joins the states of incoming edges (conds are the edge conditions).
func (e *Enc) mergeStates(conds []T, sts []*State, label string) *State {
	if len(sts) == 1 {
		return sts[0].clone()
	}
	out := newState()
	keys := map[string]bool{}
	for _, s := range sts {
		for k := range s.m {
			keys[k] = true
		}
	}
	ks := make([]string, 0, len(keys))
	for k := range keys {
		ks = append(ks, k)
	}
	sort.Strings(ks)
	for _, k := range ks {
		var vals []T
		same := true
		for _, s := range sts {
			v, ok := s.m[k]
			if !ok {
				v = e.entryKey(k, e.keySorts[k])
			}
			vals = append(vals, v)
			if v.S != vals[0].S {
				same = false
			}
		}
		if same {
			out.m[k] = vals[0]
			continue
		}
		t := vals[len(vals)-1]
		for i := len(vals) - 2; i >= 0; i-- {
			t = Ite(conds[i], vals[i], t)
		}
		out.m[k] = e.s.Define("m:"+k+"@"+label, t)
	}
	return out
}

// ---------------------------------------------------------------------------------------------
// address -> (key prefix, index terms)

type loc struct {
	key  string // without leaf path
	idx  []T    // index terms; the key's sort is leafsort wrapped len(idx) times in (Array Int .)
	cell *Cell
}

func wrapSort(n int, leafSort string) string {
	for i := 0; i < n; i++ {
		leafSort = arrSort(SInt, leafSort)
	}
	return leafSort
}

func (e *Enc) locOf(a Addr, pointee types.Type) loc {
	var l loc
	switch a.Kind {
	case AField:
		st := under(a.S).(*types.Struct)
		l = loc{key: "f:" + typeKey(a.S) + "." + st.Field(a.Idx).Name(), idx: []T{a.Base}}
	case ARef:
		pt := pointee
		if a.I != nil {
			pt = a.S // the array type
		}
		l = loc{key: "p:" + typeKey(pt), idx: []T{a.Base}}
	case ACell:
		l = loc{key: fmt.Sprintf("c:%d%s", a.Cell.ID, a.Path), cell: a.Cell}
	case AElem:
		return loc{key: "e:" + typeKey(pointee), idx: []T{a.Base, *a.I}}
	case AGlobal:
		l = loc{key: "g:" + a.G.String()}
	default:
		panic("locOf")
	}
	if a.I != nil {
		l.idx = append(l.idx, *a.I)
	}
	return l
}

// structAddr gives the address term of an object located at a (used as index for its fields).
func (e *Enc) structAddr(a Addr) (T, bool) {
	if a.I != nil && a.Kind != AElem {
		// element of an in-place array
		base, ok := e.structAddr(Addr{Kind: a.Kind, Base: a.Base, S: a.S, Idx: a.Idx, Cell: a.Cell, Path: a.Path, G: a.G})
		if !ok {
			return T{}, false
		}
		return e.elemAddr(base, *a.I), true
	}
	switch a.Kind {
	case ARef:
		return a.Base, true
	case AField:
		return e.fldTerm(a.S, a.Idx, a.Base), true
	case AElem:
		return e.elemAddr(a.Base, *a.I), true
	case AGlobal:
		n := e.s.DeclareFun("globref:"+a.G.String(), nil, SInt)
		return T{n, SInt}, true
	case ACell:
		e.escape(a.Cell, "address of a local composite used as an object address")
		return a.Cell.RefTerm, true
	}
	return T{}, false
}

func (e *Enc) elemAddr(base, i T) T {
	f := e.s.DeclareFun("elemaddr", []string{SInt, SInt}, SInt)
	g := e.s.DeclareFun("elemidx", []string{SInt}, SInt)
	h := e.s.DeclareFun("elembase", []string{SInt}, SInt)
	t := T{"(" + f + " " + base.S + " " + i.S + ")", SInt}
	if strings.Contains(t.S, "bv!") || strings.Contains(t.S, "|qh|") {
		// under a binder: injectivity as a quantified background axiom (with a trigger)
		if !e.s.declSet["elemaddr-ax"] {
			e.s.declSet["elemaddr-ax"] = true
			e.s.decls = append(e.s.decls, fmt.Sprintf("(assert (forall ((|eb| Int) (|ei| Int)) (! (and (= (%s (%s |eb| |ei|)) |ei|) (= (%s (%s |eb| |ei|)) |eb|) (not (= (%s |eb| |ei|) 0))) :pattern ((%s |eb| |ei|)))))", g, f, h, f, f, f))
		}
		return t
	}
	// ground use: instantiate injectivity for this term (keeps queries quantifier-free)
	k := "elemaddr-ax:" + t.S
	if !e.rangeSeen[k] {
		e.rangeSeen[k] = true
		e.s.Assume(And(Eq(App(SInt, g, t), i), Eq(App(SInt, h, t), base), Not(Eq(t, IntLit(0)))))
	}
	return t
}

// fieldAddr computes &x.f for a pointer-to-struct address.
func (e *Enc) fieldAddr(a Addr, s types.Type, idx int) Addr {
	if a.Kind == ACell && a.I == nil {
		return Addr{Kind: ACell, Cell: a.Cell, Path: fmt.Sprintf("%s.%d", a.Path, idx)}
	}
	base, _ := e.structAddr(a)
	return Addr{Kind: AField, Base: base, S: s, Idx: idx}
}

// load reads a value of type t at address a in state st.
func (e *Enc) load(st *State, a Addr, t types.Type) Val {
	if su, ok := under(t).(*types.Struct); ok {
		sv := &StructV{Typ: t}
		for i := 0; i < su.NumFields(); i++ {
			sv.F = append(sv.F, e.load(st, e.fieldAddr(a, t, i), su.Field(i).Type()))
		}
		return sv
	}
	l := e.locOf(a, t)
	ls := leavesOf(t)
	ts := make([]T, len(ls))
	for i, lf := range ls {
		key := l.key + lf.path
		cur := e.get(st, key, wrapSort(len(l.idx), lf.sort))
		e.markRefKey(key, lf)
		for _, ix := range l.idx {
			cur = Select(cur, ix)
		}
		ts[i] = cur
		e.assumeLoadedRange(cur, lf)
	}
	v, _ := e.unflatten(t, ts)
	if a.Kind == AGlobal && a.I == nil {
		e.sentinelGlobal(a, t, ts)
		if cv := e.eng.constGlobal(a.G); cv != nil && len(ts) == 1 {
			// package variable with a constant initialiser that is never assigned elsewhere
			c := e.constVal(cv).(T)
			if k := "constglob:" + ts[0].S; !e.rangeSeen[k] {
				e.rangeSeen[k] = true
				e.s.Assume(Eq(ts[0], c))
				e.note("package variable " + shortKey(a.G.String()) + " holds its constant initial value (checked: no other assignment in the package; unexported or assumed not assigned from outside)")
			}
		}
	}
	return v
}

// sentinelGlobal: package-level error variables named Err*/err* hold distinct non-nil values that
// are never reassigned (assumption A-glob).
func (e *Enc) sentinelGlobal(a Addr, t types.Type, ts []T) {
	if _, ok := under(t).(*types.Interface); !ok || len(ts) != 2 {
		return
	}
	name := a.G.Name()
	if !(strings.HasPrefix(name, "Err") || strings.HasPrefix(name, "err") || name == "EOF") {
		return
	}
	k := "sentinel:" + ts[0].S
	if e.rangeSeen[k] {
		return
	}
	e.rangeSeen[k] = true
	id := e.eng.sentinelID(a.G.String())
	e.s.Assume(And(Not(Eq(ts[0], IntLit(0))), Eq(ts[1], IntLit(int64(id)))))
	e.note("A-glob: sentinel error variable " + shortKey(a.G.String()) + " is non-nil, distinct from other sentinels and never reassigned")
}

func (e *Enc) assumeLoadedRange(c T, l leaf) {
	if e.rangeSeen[c.S] || strings.Contains(c.S, "bv!") {
		return
	}
	switch l.kind {
	case "len", "cap", "off":
		e.rangeSeen[c.S] = true
		e.s.Assume(And(Ge(c, IntLit(0)), Le(c, IntBig(maxSliceLen))))
	case "tag":
		e.rangeSeen[c.S] = true
		e.s.Assume(Ge(c, IntLit(0)))
	case "":
		if l.typ != nil {
			if r, ok := intRangeOf(l.typ); ok {
				e.rangeSeen[c.S] = true
				e.s.Assume(inRange(c, r))
			}
		}
	}
}

func nestedStore(arr T, idx []T, v T) T {
	if len(idx) == 0 {
		return v
	}
	return Store(arr, idx[0], nestedStore(Select(arr, idx[0]), idx[1:], v))
}

// store writes v (of type t) at address a.
func (e *Enc) store(st *State, a Addr, t types.Type, v Val) {
	if su, ok := under(t).(*types.Struct); ok {
		sv, ok := v.(*StructV)
		if !ok {
			panic(fmt.Sprintf("store: struct value expected, got %T", v))
		}
		for i := 0; i < su.NumFields(); i++ {
			e.store(st, e.fieldAddr(a, t, i), su.Field(i).Type(), sv.F[i])
		}
		return
	}
	l := e.locOf(a, t)
	ls := leavesOf(t)
	ts := e.flatten(v, t)
	for i, lf := range ls {
		key := l.key + lf.path
		e.noteWrite(key)
		arr := e.get(st, key, wrapSort(len(l.idx), lf.sort))
		st.m[key] = e.s.Define("st:"+key, nestedStore(arr, l.idx, ts[i]))
	}
	// remember static function values / shaped pointers stored in cells so that they can be
	// recovered on load (closures kept in local variables).
	if a.Kind == ACell && a.I == nil {
		ck := fmt.Sprintf("c:%d%s", a.Cell.ID, a.Path)
		switch x := v.(type) {
		case *FuncV:
			if x.Fn != nil {
				e.cellStatic[ck+"|"+st.m[ck].S] = v
			}
		case *PtrV:
			if x.A.Kind != ARef {
				e.cellStatic[ck+"|"+st.m[ck].S] = v
			}
		case *IfaceV:
			if x.Boxed != nil {
				e.cellStatic[ck+".tag|"+st.m[ck+".tag"].S] = v
			}
		}
	}
}

// havocKey replaces the whole content of a key by an unconstrained value.
func (e *Enc) havocKey(st *State, key string, why string) {
	srt, ok := e.keySorts[key]
	if !ok {
		return
	}
	e.noteWrite(key)
	st.m[key] = e.s.Const("hv:"+key, srt)
}

func (e *Enc) noteWrite(key string) {
	for i, w := range e.writeLogs {
		if i < len(e.loopLogOwner) && e.loopLogOwner[i] != nil {
			li := e.loopLogOwner[i]
			// only writes performed while the owning frame is inside the loop body count
			if li.frame != nil && !li.body[li.frame.curB] {
				continue
			}
		}
		w[key] = true
	}
}
