package main

// Replay of solver counterexamples on the real code (go test -overlay, nothing written to /repo).

import (
	"bytes"
	"context"
	"encoding/json"
	"fmt"
	"go/types"
	"os"
	"os/exec"
	"path/filepath"
	"sort"
	"strings"
	"time"

	"golang.org/x/tools/go/ssa"
)

type replayInput struct {
	Term   string // SMT term whose model value is the input
	GoPath string // assignable Go expression, e.g. "a0.Base"
	GoType string // Go type for the conversion
	Kind   string // int, bool
}

type replayClause struct {
	Text string
	Term string
}

type ReplaySpec struct {
	PkgDir     string
	PkgName    string
	ModDir     string
	Imports    map[string]string // path -> name
	Decls      []string
	Call       string
	Inputs     []replayInput
	ResConsts  []string // SMT constants standing for the observed results
	ResKinds   []string // int, bool, ref, skip
	Clauses    []replayClause
	NResults   int
	script     *Script
	nDecls     int
	nAssume    int
}

// buildReplaySpec is called at the end of encoding for functions marked "replay scalar".
func (e *Enc) buildReplaySpec() {
	if e.fc == nil || e.fc.Replay == "" || e.pass != 2 || e.fn == nil {
		return
	}
	fn := e.fn
	rs := &ReplaySpec{Imports: map[string]string{}, script: e.s}
	rs.PkgName = fn.Pkg.Pkg.Name()
	rs.PkgDir = filepath.Dir(e.pkg.Pkg.GoFiles[0])
	rs.ModDir = moduleDirFor(rs.PkgDir)
	qual := func(p *types.Package) string {
		if p == fn.Pkg.Pkg {
			return ""
		}
		rs.Imports[p.Path()] = p.Name()
		return p.Name()
	}
	var args []string
	ok := true
	var addLeaves func(v Val, t types.Type, goPath string)
	addLeaves = func(v Val, t types.Type, goPath string) {
		switch u := under(t).(type) {
		case *types.Basic:
			tt, isT := v.(T)
			if !isT {
				ok = false
				return
			}
			switch {
			case u.Info()&types.IsInteger != 0:
				rs.Inputs = append(rs.Inputs, replayInput{tt.S, goPath, types.TypeString(t, qual), "int"})
			case u.Info()&types.IsBoolean != 0:
				rs.Inputs = append(rs.Inputs, replayInput{tt.S, goPath, types.TypeString(t, qual), "bool"})
			default:
				// strings, floats: left at zero value
			}
		case *types.Struct:
			sv, isS := v.(*StructV)
			if !isS {
				ok = false
				return
			}
			for i := 0; i < u.NumFields(); i++ {
				addLeaves(sv.F[i], u.Field(i).Type(), goPath+"."+u.Field(i).Name())
			}
		case *types.Array:
			// left at zero value
		default:
			// pointers, interfaces, slices, maps inside: left at zero value (nil)
		}
	}
	for i, p := range fn.Params {
		name := fmt.Sprintf("a%d", i)
		v := e.top.vals[p]
		if pt, isPtr := under(p.Type()).(*types.Pointer); isPtr {
			if _, isStruct := under(pt.Elem()).(*types.Struct); isStruct {
				rs.Decls = append(rs.Decls, fmt.Sprintf("%s := &%s{}", name, types.TypeString(pt.Elem(), qual)))
				pv := e.asPtr(v, p.Type())
				sv := e.load(e.entry, pv.A, pt.Elem())
				addLeaves(sv, pt.Elem(), name)
				args = append(args, name)
				continue
			}
			rs.Decls = append(rs.Decls, fmt.Sprintf("var %s %s", name, types.TypeString(p.Type(), qual)))
			args = append(args, name)
			continue
		}
		rs.Decls = append(rs.Decls, fmt.Sprintf("var %s %s", name, types.TypeString(p.Type(), qual)))
		addLeaves(v, p.Type(), name)
		args = append(args, name)
	}
	if !ok {
		return
	}
	// call expression
	if recv := fn.Signature.Recv(); recv != nil {
		rs.Call = fmt.Sprintf("%s.%s(%s)", args[0], fn.Name(), strings.Join(args[1:], ", "))
	} else {
		rs.Call = fmt.Sprintf("%s(%s)", fn.Name(), strings.Join(args, ", "))
	}
	// result constants and clauses over them
	res := fn.Signature.Results()
	rs.NResults = res.Len()
	var results []TV
	resNames := map[string]int{}
	for i := 0; i < res.Len(); i++ {
		rt := res.At(i).Type()
		kind := "skip"
		var v Val
		switch u := under(rt).(type) {
		case *types.Basic:
			if u.Info()&types.IsInteger != 0 {
				kind = "int"
			} else if u.Info()&types.IsBoolean != 0 {
				kind = "bool"
			}
		case *types.Pointer, *types.Interface:
			kind = "ref"
		}
		switch kind {
		case "int":
			c := e.s.Const(fmt.Sprintf("replay:R%d", i), SInt)
			rs.ResConsts = append(rs.ResConsts, c.S)
			v = c
		case "bool":
			c := e.s.Const(fmt.Sprintf("replay:R%d", i), SBool)
			rs.ResConsts = append(rs.ResConsts, c.S)
			v = c
		case "ref":
			c := e.s.Const(fmt.Sprintf("replay:R%d", i), SInt)
			rs.ResConsts = append(rs.ResConsts, c.S)
			if _, isI := under(rt).(*types.Interface); isI {
				v = &IfaceV{Tag: c, Data: e.s.Const("replay:Rdata", SInt)}
			} else {
				v = &PtrV{A: Addr{Kind: ARef, Base: c}, Elem: under(rt).(*types.Pointer).Elem()}
			}
		default:
			rs.ResConsts = append(rs.ResConsts, "")
			v = e.fresh(rt, "replay:Rskip")
		}
		rs.ResKinds = append(rs.ResKinds, kind)
		results = append(results, TV{V: v, Typ: rt})
		if n := res.At(i).Name(); n != "" && n != "_" {
			resNames[n] = i
		}
	}
	ctx := &ExprCtx{e: e, fr: e.top, st: e.entry, old: e.entry, results: results, resNames: resNames, fc: e.fc}
	for _, en := range e.fc.Ensures {
		func() {
			defer func() { recover() }()
			g := ctx.boolExpr(en.Expr)
			rs.Clauses = append(rs.Clauses, replayClause{en.Text, g.S})
		}()
	}
	rs.nDecls = len(e.s.decls)
	rs.nAssume = 0
	e.replay = rs
	for _, o := range e.obls {
		o.replaySpec = rs
	}
}

var _ = ssa.BuilderMode(0)

func replayOnCode(o *Obligation, solverOut string) (bool, string) {
	rs := o.replaySpec
	if rs == nil {
		return false, "function is not replayable (inputs cannot be constructed from a model); obligation " + o.Name
	}
	// 1. model values of the inputs
	var terms []string
	for _, in := range rs.Inputs {
		terms = append(terms, in.Term)
	}
	q := o.Render(true)
	if len(terms) > 0 {
		q += "(get-value (" + strings.Join(terms, " ") + "))\n"
	}
	r := RunSolvers(q, 20, false)
	if r.Status != "sat" {
		return false, "no model for replay: " + r.Status
	}
	vals := parseValueList(r.Output, len(terms))
	if len(vals) != len(terms) {
		return false, fmt.Sprintf("could not parse model values (%d of %d)", len(vals), len(terms))
	}
	// 2. generate and run the test on the real code
	var b bytes.Buffer
	fmt.Fprintf(&b, "package %s\n\nimport (\n\t\"fmt\"\n\t\"testing\"\n", rs.PkgName)
	var imps []string
	for p := range rs.Imports {
		imps = append(imps, p)
	}
	sort.Strings(imps)
	for _, p := range imps {
		fmt.Fprintf(&b, "\t%s %q\n", rs.Imports[p], p)
	}
	fmt.Fprintf(&b, ")\n\nfunc TestZZReplayGowp(t *testing.T) {\n")
	for _, d := range rs.Decls {
		fmt.Fprintf(&b, "\t%s\n", d)
	}
	inputDesc := map[string]string{}
	for i, in := range rs.Inputs {
		switch in.Kind {
		case "int":
			n, ok := smtIntValue(vals[i])
			if !ok {
				return false, "non-integer model value " + vals[i]
			}
			inputDesc[in.GoPath] = n.String()
			if n.Sign() < 0 {
				fmt.Fprintf(&b, "\t%s = %s(%s)\n", in.GoPath, in.GoType, n.String())
			} else {
				fmt.Fprintf(&b, "\t%s = %s(uint64(%s))\n", in.GoPath, in.GoType, n.String())
			}
		case "bool":
			inputDesc[in.GoPath] = vals[i]
			fmt.Fprintf(&b, "\t%s = %s\n", in.GoPath, vals[i])
		}
	}
	var lhs []string
	for i := 0; i < rs.NResults; i++ {
		lhs = append(lhs, fmt.Sprintf("r%d", i))
	}
	if rs.NResults > 0 {
		fmt.Fprintf(&b, "\t%s := %s\n", strings.Join(lhs, ", "), rs.Call)
	} else {
		fmt.Fprintf(&b, "\t%s\n", rs.Call)
	}
	for i, k := range rs.ResKinds {
		switch k {
		case "int":
			fmt.Fprintf(&b, "\tfmt.Printf(\"ZZREPLAY %d %%d\\n\", r%d)\n", i, i)
		case "bool":
			fmt.Fprintf(&b, "\tfmt.Printf(\"ZZREPLAY %d %%t\\n\", r%d)\n", i, i)
		case "ref":
			fmt.Fprintf(&b, "\tif r%d == nil { fmt.Printf(\"ZZREPLAY %d 0\\n\") } else { fmt.Printf(\"ZZREPLAY %d 1\\n\") }\n", i, i, i)
		default:
			fmt.Fprintf(&b, "\t_ = r%d\n", i)
		}
	}
	fmt.Fprintf(&b, "}\n")
	dir := scratchDir()
	testSrc := filepath.Join(dir, "zz_replay_gowp_test.go")
	os.WriteFile(testSrc, b.Bytes(), 0o644)
	target := filepath.Join(rs.PkgDir, "zz_replay_gowp_test.go")
	ov, _ := json.Marshal(map[string]any{"Replace": map[string]string{target: testSrc}})
	ovFile := filepath.Join(dir, "overlay.json")
	os.WriteFile(ovFile, ov, 0o644)
	ctx, cancel := context.WithTimeout(context.Background(), 300*time.Second)
	defer cancel()
	rel, _ := filepath.Rel(rs.ModDir, rs.PkgDir)
	cmd := exec.CommandContext(ctx, "go", "test", "-overlay", ovFile, "-vet=off", "-v", "-count=1", "-timeout", "60s", "-run", "^TestZZReplayGowp$", "./"+rel)
	cmd.Dir = rs.ModDir
	cmd.Env = append(os.Environ(), "GOFLAGS=-mod=mod", "GOPROXY=off", "GOTOOLCHAIN=local")
	out, _ := cmd.CombinedOutput()
	outs := string(out)
	observed := map[int]string{}
	for _, l := range strings.Split(outs, "\n") {
		var i int
		var v string
		if n, _ := fmt.Sscanf(l, "ZZREPLAY %d %s", &i, &v); n == 2 {
			observed[i] = v
		}
	}
	detail := map[string]any{"inputs": inputDesc, "call": rs.Call, "observed": observed}
	if strings.Contains(outs, "panic:") {
		detail["panic"] = truncate(outs, 1500)
		js, _ := json.Marshal(detail)
		if len(observed) == 0 {
			return true, "real code panics on the model input: " + string(js)
		}
	}
	need := 0
	for _, k := range rs.ResKinds {
		if k != "skip" {
			need++
		}
	}
	if len(observed) < need {
		detail["test_output"] = truncate(outs, 1500)
		js, _ := json.Marshal(detail)
		return false, "replay test did not produce results: " + string(js)
	}
	// 3. evaluate the postconditions on inputs + observed outputs
	var qb bytes.Buffer
	qb.WriteString("(set-logic ALL)\n")
	for _, d := range rs.script.decls[:rs.nDecls] {
		qb.WriteString(d + "\n")
	}
	for i, in := range rs.Inputs {
		fmt.Fprintf(&qb, "(assert (= %s %s))\n", in.Term, vals[i])
	}
	for i, k := range rs.ResKinds {
		if k == "skip" {
			continue
		}
		v := observed[i]
		if k == "int" || k == "ref" {
			if strings.HasPrefix(v, "-") {
				v = "(- " + v[1:] + ")"
			}
		}
		fmt.Fprintf(&qb, "(assert (= %s %s))\n", rs.ResConsts[i], v)
	}
	var violated []string
	for _, cl := range rs.Clauses {
		q2 := qb.String() + "(assert (not " + cl.Term + "))\n(check-sat)\n"
		r2 := RunSolvers(q2, 20, false)
		if r2.Status == "sat" {
			violated = append(violated, cl.Text)
		}
	}
	detail["violated_postconditions"] = violated
	js, _ := json.Marshal(detail)
	if len(violated) > 0 {
		return true, "confirmed on the real code: " + string(js)
	}
	return false, "model input does not violate a postcondition when run on the real code: " + string(js)
}

// parseValueList parses the LAST "((t v) (t v) ...)" block of solver output into values in order.
func parseValueList(out string, n int) []string {
	if n == 0 {
		return nil
	}
	start := strings.Index(out, "sat")
	if start < 0 {
		return nil
	}
	idx := strings.Index(out[start:], "((")
	if idx < 0 {
		return nil
	}
	idx += start
	toks := tokenizeSexp(out[idx:])
	pos := 0
	var parse func() string
	parse = func() string {
		t := toks[pos]
		pos++
		if t != "(" {
			return t
		}
		var parts []string
		for pos < len(toks) && toks[pos] != ")" {
			parts = append(parts, parse())
		}
		pos++
		return "(" + strings.Join(parts, " ") + ")"
	}
	if len(toks) == 0 || toks[0] != "(" {
		return nil
	}
	pos = 1
	var vals []string
	for pos < len(toks) && toks[pos] == "(" {
		pos++ // (
		_ = parse()
		v := parse()
		if pos < len(toks) && toks[pos] == ")" {
			pos++
		}
		vals = append(vals, v)
	}
	return vals
}
