package main

import (
	"crypto/sha256"
	"encoding/hex"
	"flag"
	"fmt"
	"os"
	"path/filepath"
	"sort"
	"strings"
)

func fileSHA(path string) string {
	data, err := os.ReadFile(path)
	if err != nil {
		return ""
	}
	h := sha256.Sum256(data)
	return hex.EncodeToString(h[:])
}

func usage() {
	fmt.Fprintln(os.Stderr, `usage:
  gowp check --property Cxx [--tier quick|thorough]
  gowp lock                      rewrite /verif/contracts.lock from the contract files in /repo
  gowp replay <file>             print a replay file and re-run its obligation
  gowp dump --property Cxx --obligation NAME   print the SMT query of an obligation
  gowp selftest [--property Cxx] run the must-fail corpus`)
	os.Exit(2)
}

func main() {
	defer cleanupScratch()
	if len(os.Args) < 2 {
		usage()
	}
	switch os.Args[1] {
	case "check":
		fs := flag.NewFlagSet("check", flag.ExitOnError)
		prop := fs.String("property", "", "property id")
		tier := fs.String("tier", "", "quick|thorough")
		fs.Parse(os.Args[2:])
		if *prop == "" {
			usage()
		}
		t := *tier
		if t == "" {
			t = os.Getenv("VERIF_TIER")
		}
		if t != "thorough" {
			t = "quick"
		}
		code, _ := runCheck(*prop, t, nil, false)
		if t == "thorough" && code == 0 {
			code = runSelftest(*prop, true)
		}
		cleanupScratch()
		os.Exit(code)
	case "lock":
		eng := NewEngine()
		if err := eng.discoverContracts(); err != nil {
			fmt.Fprintln(os.Stderr, err)
			os.Exit(2)
		}
		var lines []string
		for _, cf := range eng.contractFiles {
			rel, _ := filepath.Rel(repoRoot, cf.Path)
			lines = append(lines, fileSHA(cf.Path)+"  "+rel)
		}
		sort.Strings(lines)
		os.WriteFile(filepath.Join(verifRoot, "contracts.lock"), []byte(strings.Join(lines, "\n")+"\n"), 0o644)
		fmt.Printf("locked %d contract files\n", len(lines))
	case "dump":
		fs := flag.NewFlagSet("dump", flag.ExitOnError)
		prop := fs.String("property", "", "property id")
		obl := fs.String("obligation", "", "obligation name (substring)")
		fs.Parse(os.Args[2:])
		dumpObligation(*prop, *obl)
	case "replay":
		if len(os.Args) < 3 {
			usage()
		}
		os.Exit(replayFile(os.Args[2]))
	case "bypassgen":
		fs := flag.NewFlagSet("bypassgen", flag.ExitOnError)
		prop := fs.String("property", "", "property id")
		out := fs.String("out", "/tmp/bypass", "output directory (mutants/<property>/bypass.json)")
		fs.Parse(os.Args[2:])
		os.Exit(runBypassGen(*prop, *out))
	case "selftest":
		fs := flag.NewFlagSet("selftest", flag.ExitOnError)
		prop := fs.String("property", "", "property id (default: all)")
		fs.Parse(os.Args[2:])
		code := runSelftest(*prop, false)
		cleanupScratch()
		os.Exit(code)
	default:
		usage()
	}
}
