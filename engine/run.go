package main

import (
	"encoding/json"
	"fmt"
	"os"
	"path/filepath"
	"sort"
	"strings"
	"sync"
	"time"
)

const verifRoot = "/verif"

type OblResult struct {
	O      *Obligation
	Res    SolverResult
	Status string // proved, failed, undecided, cover-ok, cover-vacuous
}

type KnownFinding struct {
	Property   string `json:"property"`
	Obligation string `json:"obligation"`
	What       string `json:"what"`
	Status     string `json:"status"` // "known" | "fixed"
	Commit     string `json:"commit,omitempty"`
}

type CheckReport struct {
	Property     string
	Tier         string
	Functions    []string
	Results      []*OblResult
	Missing      []string // contracts whose function was not found
	EngineErrors []string
	Assumptions  map[string]bool
	AnchorMiss   []string
	Wall         float64
	SolverTime   float64
	ByBackend    map[string]int
	Bounded      []string
	KnownHit     []string
	Retried      int // obligations that timed out in the quick budget and were retried with the long budget
}

func loadKnownFindings() []KnownFinding {
	data, err := os.ReadFile(filepath.Join(verifRoot, "known-findings.json"))
	if err != nil {
		return nil
	}
	var kf struct {
		Findings []KnownFinding `json:"findings"`
	}
	if err := json.Unmarshal(data, &kf); err != nil {
		fmt.Fprintf(os.Stderr, "known-findings.json: %v\n", err)
		os.Exit(2)
	}
	return kf.Findings
}

func hasProp(props []string, p string) bool {
	for _, x := range props {
		if x == p {
			return true
		}
	}
	return false
}

// runCheck runs all obligations of one property. Returns the process exit code.
func runCheck(prop, tier string, overlay map[string][]byte, quiet bool) (int, *CheckReport) {
	start := time.Now()
	rep := &CheckReport{Property: prop, Tier: tier, Assumptions: map[string]bool{}, ByBackend: map[string]int{}}
	eng := NewEngine()
	eng.overlay = overlay
	eng.tier = tier
	if err := eng.discoverContracts(); err != nil {
		fmt.Fprintf(os.Stderr, "gowp: %v\n", err)
		return 2, rep
	}
	if err := checkContractLock(eng); err != nil {
		fmt.Fprintf(os.Stderr, "gowp: %v\n", err)
		return 2, rep
	}
	// packages to load
	pkgSet := map[string]bool{}
	for _, cf := range eng.contractFiles {
		for _, fc := range cf.Funcs {
			if hasProp(fc.Props, prop) {
				pkgSet[cf.PkgPath] = true
			}
		}
		for _, lm := range cf.Lemmas {
			if hasProp(lm.Props, prop) {
				pkgSet[cf.PkgPath] = true
			}
		}
	}
	for _, cf := range eng.contractFiles {
		if pkgSet[cf.PkgPath] {
			for _, p := range cf.LoadPkgs {
				pkgSet[p] = true
			}
		}
	}
	if len(pkgSet) == 0 {
		fmt.Fprintf(os.Stderr, "gowp: no contracts for property %s\n", prop)
		return 2, rep
	}
	// packages of modules that lnd's go.mod does not replace with the local directory (tlv, tor)
	// are separate build universes: they are loaded and encoded in their own engine instance.
	groups := map[string][]string{}
	replaced := replacedModuleDirs()
	for p := range pkgSet {
		dir := eng.dirOfPkg(p)
		mod := repoRoot
		if dir != "" {
			mod = moduleDirFor(dir)
			if replaced[mod] {
				mod = repoRoot
			}
		}
		groups[mod] = append(groups[mod], p)
	}
	var obls []*Obligation
	first := true
	for _, mod := range sortedKeys(groups) {
		geng := eng
		if !first {
			geng = NewEngine()
			geng.overlay = overlay
			geng.tier = tier
			if err := geng.discoverContracts(); err != nil {
				fmt.Fprintf(os.Stderr, "gowp: %v\n", err)
				return 2, rep
			}
		}
		first = false
		code := geng.encodeGroup(prop, groups[mod], mod == repoRoot, rep, &obls)
		if code != 0 {
			return code, rep
		}
	}
	// discharge
	timeout := 10
	all := false
	if tier == "thorough" {
		timeout = 120
		all = true
	}
	results := make([]*OblResult, len(obls))
	var wg sync.WaitGroup
	sem := make(chan struct{}, 6)
	for i, o := range obls {
		wg.Add(1)
		go func(i int, o *Obligation) {
			defer wg.Done()
			sem <- struct{}{}
			defer func() { <-sem }()
			q := o.Render(false)
			if d := os.Getenv("GOWP_DUMP"); d != "" && strings.Contains(o.Name, d) {
				fmt.Printf(";;;; %s\n%s\n", o.Name, q)
			}
			r := RunSolvers(q, timeout, all)
			or := &OblResult{O: o, Res: r}
			if o.Cover {
				switch r.Status {
				case "sat":
					or.Status = "cover-ok"
				case "unsat":
					or.Status = "cover-vacuous"
				default:
					or.Status = "cover-unknown"
				}
			} else {
				switch r.Status {
				case "unsat":
					or.Status = "proved"
				case "sat":
					or.Status = "failed"
				case "disagree":
					or.Status = "disagree"
				default:
					or.Status = "undecided"
				}
			}
			results[i] = or
		}(i, o)
	}
	wg.Wait()
	// A timeout in the quick tier is retried once with a longer budget before it is reported: on a
	// busy machine an obligation that normally takes a few seconds can exceed the quick budget, and a
	// load-dependent alarm on an unchanged tree is a false alarm. Only undecided (never sat) results
	// are retried, and only when they are few - many timeouts at once are not load noise.
	if tier != "thorough" {
		var retry []int
		knownObl := map[string]bool{}
		for _, k := range loadKnownFindings() {
			if k.Status == "known" && k.Property == prop {
				knownObl[k.Obligation] = true
			}
		}
		for i, r := range results {
			// an obligation listed as a known finding is expected not to discharge: no second attempt
			if r != nil && r.Status == "undecided" && !knownObl[r.O.Name] {
				retry = append(retry, i)
			}
		}
		if n := len(retry); n > 0 && n <= 16 {
			long := 60
			if v := envInt("GOWP_RETRY_TIMEOUT"); v > 0 {
				long = v
			}
			var wg2 sync.WaitGroup
			for _, i := range retry {
				wg2.Add(1)
				go func(i int) {
					defer wg2.Done()
					sem <- struct{}{}
					defer func() { <-sem }()
					o := obls[i]
					r := RunSolvers(o.Render(false), long, false)
					r.Elapsed += results[i].Res.Elapsed
					or := &OblResult{O: o, Res: r}
					switch {
					case o.Cover && r.Status == "sat":
						or.Status = "cover-ok"
					case o.Cover && r.Status == "unsat":
						or.Status = "cover-vacuous"
					case o.Cover:
						or.Status = "cover-unknown"
					case r.Status == "unsat":
						or.Status = "proved"
					case r.Status == "sat":
						or.Status = "failed"
					case r.Status == "disagree":
						or.Status = "disagree"
					default:
						or.Status = "undecided"
					}
					results[i] = or
				}(i)
			}
			wg2.Wait()
			rep.Retried = len(retry)
		}
	}
	rep.Results = results
	if os.Getenv("GOWP_VERBOSE") != "" {
		for _, r := range results {
			fmt.Printf("  %-14s %-10s %6.2fs %-13s %s\n", r.Status, r.Res.Status, r.Res.Elapsed, r.Res.Solver, r.O.Name)
		}
	}
	for _, r := range results {
		rep.SolverTime += r.Res.Elapsed
		if r.Res.Solver != "" {
			rep.ByBackend[r.Res.Solver]++
		}
	}
	rep.Wall = time.Since(start).Seconds()
	code := report(rep, quiet)
	return code, rep
}

func report(rep *CheckReport, quiet bool) int {
	prop := rep.Property
	known := loadKnownFindings()
	isKnown := func(name string) *KnownFinding {
		for i := range known {
			k := &known[i]
			if k.Property == prop && k.Obligation == name && k.Status != "fixed" {
				return k
			}
		}
		return nil
	}
	code := 0
	violations := 0
	engineErr := false
	say := func(format string, args ...any) {
		if !dryRun {
			fmt.Printf(format, args...)
		}
	}
	for _, m := range rep.EngineErrors {
		fmt.Fprintf(os.Stderr, "ENGINE-ERROR: %s\n", m)
	}
	if !dryRun {
		os.MkdirAll(filepath.Join(outRoot(), "replay", prop), 0o755)
	}
	nObl, nDis := 0, 0
	var knownHit []string
	var samples []any
	for _, m := range rep.EngineErrors {
		// a function that could be encoded on the unchanged tree and no longer can: its
		// obligations are undischarged
		path := writeReplayFile(prop, "engine:"+m, map[string]any{
			"obligation": "encoding",
			"reason":     "the verifier could not generate obligations for a function under contract: " + m,
		})
		say("VIOLATION property=%s replay=%s no-failing-input-found\n", prop, path)
		lastViolations = append(lastViolations, "engine:"+m)
		violations++
	}
	for _, m := range rep.AnchorMiss {
		// every anchor matches on the unchanged tree; an anchor that matches nothing means the
		// guarded operation was removed or renamed: its obligations can no longer be established
		path := writeReplayFile(prop, "anchor:"+m, map[string]any{
			"obligation": "site anchor binding",
			"reason":     "a site clause of the contract matches nothing in the current tree: " + m,
		})
		say("VIOLATION property=%s replay=%s no-failing-input-found\n", prop, path)
		lastViolations = append(lastViolations, "anchor-missing:"+m)
		violations++
	}
	for _, m := range rep.Missing {
		lastViolations = append(lastViolations, "missing:"+m)
		path := writeReplayFile(prop, "missing:"+m, map[string]any{
			"obligation": shortKey(m) + "/contract-binding",
			"reason":     "function under contract not found in the current tree: nothing can be proved for it",
		})
		say("VIOLATION property=%s replay=%s no-failing-input-found\n", prop, path)
		violations++
	}
	for _, r := range rep.Results {
		o := r.O
		if o.Cover {
			if r.Status == "cover-vacuous" {
				if strings.HasSuffix(o.Name, "/cover/pre") {
					fmt.Fprintf(os.Stderr, "ENGINE-ERROR: contradictory precondition: %s\n", o.Name)
					engineErr = true
				} else {
					fmt.Printf("NOTE: %s: guard point is unreachable in the current tree (obligations there hold vacuously)\n", o.Name)
				}
			}
			continue
		}
		nObl++
		switch r.Status {
		case "proved":
			nDis++
			if len(samples) < 6 {
				samples = append(samples, map[string]any{"obligation": o.Name, "clause": o.Desc, "solver": r.Res.Solver, "seconds": round3(r.Res.Elapsed)})
			}
		case "disagree":
			fmt.Fprintf(os.Stderr, "ENGINE-ERROR: solvers disagree on %s: %v\n", o.Name, r.Res.All)
			engineErr = true
		case "failed", "undecided":
			if kf := isKnown(o.Name); kf != nil {
				say("KNOWN-FINDING: property=%s %s\n", prop, kf.What)
				// a listed finding is reported, not counted among the obligations expected to discharge
				nObl--
				knownHit = append(knownHit, o.Name+": "+kf.What)
				continue
			}
			violations++
			lastViolations = append(lastViolations, o.Name)
			info := map[string]any{
				"obligation": o.Name,
				"clause":     o.Desc,
				"status":     r.Res.Status,
				"solvers":    r.Res.All,
				"solver_output": truncate(r.Res.Output, 6000),
			}
			suffix := " no-failing-input-found"
			if r.Status == "failed" && !dryRun {
				// get a model and try to replay it on the real code
				model, confirmed, detail := tryReplay(o)
				info["model"] = model
				info["replay"] = detail
				if confirmed {
					suffix = ""
				}
			}
			path := writeReplayFile(prop, o.Name, info)
			say("VIOLATION property=%s replay=%s%s\n", prop, path, suffix)
		}
	}
	if !quiet {
		fmt.Printf("property %s: %d obligations, %d discharged, %d violations, %d functions under contract, wall %.1fs\n",
			prop, nObl, nDis, violations, len(rep.Functions), rep.Wall)
	}
	if !dryRun && scratchOut() == "" {
		rep.KnownHit = knownHit
		writeEvidence(rep, nObl, nDis, violations, samples)
	}
	if engineErr {
		return 2
	}
	if nObl == 0 && violations == 0 {
		fmt.Fprintf(os.Stderr, "ENGINE-ERROR: property %s produced zero obligations\n", prop)
		return 2
	}
	if violations > 0 {
		code = 1
	}
	return code
}

func round3(f float64) float64 { return float64(int(f*1000)) / 1000 }

func safeFile(s string) string {
	var b strings.Builder
	for _, c := range s {
		switch {
		case c >= 'a' && c <= 'z', c >= 'A' && c <= 'Z', c >= '0' && c <= '9', c == '.', c == '-', c == '_':
			b.WriteRune(c)
		default:
			b.WriteByte('_')
		}
	}
	out := b.String()
	if len(out) > 150 {
		out = out[:150]
	}
	return out
}

// scratchOut: a run against a scratch copy of the repository (GOWP_REPO set) never writes evidence
// and keeps its replay files out of /verif - evidence describes /repo only.
func scratchOut() string {
	if repoRoot != "/repo" {
		d := os.Getenv("GOWP_OUT")
		if d == "" {
			d = filepath.Join(os.TempDir(), "gowp-scratch")
		}
		return d
	}
	return ""
}

func outRoot() string {
	if d := scratchOut(); d != "" {
		return d
	}
	return verifRoot
}

func writeReplayFile(prop, name string, info map[string]any) string {
	if dryRun {
		return "(dry-run)"
	}
	dir := filepath.Join(outRoot(), "replay", prop)
	os.MkdirAll(dir, 0o755)
	path := filepath.Join(dir, safeFile(name)+".json")
	info["property"] = prop
	data, _ := json.MarshalIndent(info, "", " ")
	os.WriteFile(path, data, 0o644)
	return path
}

func writeEvidence(rep *CheckReport, nObl, nDis, violations int, samples []any) {
	var assumptions []string
	for a := range rep.Assumptions {
		assumptions = append(assumptions, a)
	}
	sort.Strings(assumptions)
	assumptions = append([]string{
		"TB-1 go/parser, go/types, go/ssa (x/tools v0.29.0) produce SSA faithful to the compiler's semantics",
		"TB-2 the gowp translation of SSA to SMT (DESIGN.md §2.3); exercised by the must-fail corpus",
		"TB-3 SMT solvers z3 4.8.12 / z3 5.1.0 / cvc5 1.0 (raced; all must agree in the thorough tier)",
		"A-seq functions are verified as sequential code under their documented locking protocol; goroutines, channels, select are not modelled",
		"A-frame opaque callees write only memory reachable from their arguments' static types (DESIGN.md §2.3)",
		"termination is not proved (partial correctness)",
	}, assumptions...)
	fns := append([]string{}, rep.Functions...)
	sort.Strings(fns)
	if samples == nil {
		samples = []any{}
	}
	ev := map[string]any{
		"property_id": rep.Property,
		"tier":        rep.Tier,
		"seed":        envInt("VERIF_SEED"),
		"level":       "proof",
		"coverage": map[string]any{
			"obligations":              nObl,
			"discharged":               nDis,
			"checker_cmd":              "bin/gowp check --property " + rep.Property + " --tier " + rep.Tier,
			"trusted_base":             []string{"go/ssa (x/tools v0.29.0)", "gowp VC generator", "z3 4.8.12", "z3 5.1.0", "cvc5 1.0"},
			"functions_under_contract": fns,
			"by_backend":               rep.ByBackend,
			"solver_time_s":            round3(rep.SolverTime),
			"retried_after_timeout":    rep.Retried,
			"samples":                  samples,
			"anchor_missing":           rep.AnchorMiss,
			"bounded":                  rep.Bounded,
			"known_findings_reported":  rep.KnownHit,
			"contract_binding_missing": rep.Missing,
			"engine_errors":            rep.EngineErrors,
		},
		"assumptions": assumptions,
		"wall_s":      round3(rep.Wall),
		"violations":  violations,
	}
	os.MkdirAll(filepath.Join(verifRoot, "evidence"), 0o755)
	data, _ := json.MarshalIndent(ev, "", " ")
	os.WriteFile(filepath.Join(verifRoot, "evidence", rep.Property+".json"), data, 0o644)
}

func envInt(name string) int {
	var n int
	fmt.Sscanf(os.Getenv(name), "%d", &n)
	return n
}

// ---------------------------------------------------------------------------------------------
// contract lock

func checkContractLock(eng *Engine) error {
	if os.Getenv("GOWP_NOLOCK") != "" && scratchOut() != "" {
		// only for runs against a scratch copy (GOWP_REPO): they write no evidence
		return nil
	}
	data, err := os.ReadFile(filepath.Join(verifRoot, "contracts.lock"))
	if err != nil {
		return fmt.Errorf("contracts.lock missing: %v", err)
	}
	want := map[string]string{}
	for _, l := range strings.Split(string(data), "\n") {
		f := strings.Fields(l)
		if len(f) == 2 {
			want[f[1]] = f[0]
		}
	}
	for _, cf := range eng.contractFiles {
		rel, _ := filepath.Rel(repoRoot, cf.Path)
		got := fileSHA(cf.Path)
		if want[rel] != got {
			return fmt.Errorf("CONTRACT-DRIFT: %s differs from contracts.lock (a changed contract must be re-locked with 'gowp lock')", rel)
		}
		delete(want, rel)
	}
	for rel := range want {
		return fmt.Errorf("CONTRACT-DRIFT: %s listed in contracts.lock is missing", rel)
	}
	return nil
}

// encodeGroup loads one build universe and generates the obligations of the property's contracts
// that live in it.
func (eng *Engine) encodeGroup(prop string, groupPkgs []string, withInline bool, rep *CheckReport, oblsOut *[]*Obligation) int {
	inGroup := map[string]bool{}
	for _, p := range groupPkgs {
		inGroup[p] = true
	}
	var obls []*Obligation
	usedExterns := map[string]*FuncContract{}
	var pkgs []string
	pkgs = append(pkgs, groupPkgs...)
	if withInline {
		for p := range eng.inlinePkgs {
			pkgs = append(pkgs, p)
		}
	}
	sort.Strings(pkgs)
	if err := eng.load(pkgs); err != nil {
		// a tree that does not compile is not a property violation
		fmt.Fprintf(os.Stderr, "gowp: %v\n", err)
		return 2
	}
	if err := eng.resolveContracts(); err != nil {
		fmt.Fprintf(os.Stderr, "gowp: %v\n", err)
		return 2
	}
	for _, cf := range eng.contractFiles {
		lp := eng.pkgByPath[cf.PkgPath]
		if lp == nil || !inGroup[cf.PkgPath] {
			continue
		}
		for _, fc := range cf.Funcs {
			if !hasProp(fc.Props, prop) || fc.Extern {
				continue
			}
			key, _ := eng.contractKey(cf, lp, fc)
			if fc.Trusted {
				rep.Assumptions["trusted contract (body not verified): "+shortKey(key)] = true
				continue
			}
			fn := eng.findFunction(key)
			if fn == nil || len(fn.Blocks) == 0 {
				rep.Missing = append(rep.Missing, key)
				continue
			}
			enc, err := eng.encodeFunction(lp, fn, fc)
			if err != nil {
				rep.EngineErrors = append(rep.EngineErrors, err.Error())
				continue
			}
			rep.Functions = append(rep.Functions, shortFnName(fn))
			if os.Getenv("GOWP_VERBOSE") != "" {
				for a, why := range enc.escaped {
					fmt.Printf("  escape in %s: %s (%s): %s\n", shortFnName(fn), a.Name(), a.Comment, why)
				}
			}
			for a := range enc.assumps {
				rep.Assumptions[a] = true
			}
			for k := range enc.assumpEffectFree {
				rep.Assumptions["effect-free callee (A-log): "+shortKey(k)] = true
			}
			for _, u := range enc.unsupported {
				rep.Assumptions["unsupported instruction over-approximated: "+u] = true
			}
			rep.AnchorMiss = append(rep.AnchorMiss, enc.anchorMissing...)
			if len(enc.floatOpsUsed) > 0 {
				rep.Assumptions["A-fp: float operations are uninterpreted functions with the axioms listed in DESIGN.md"] = true
			}
			obls = append(obls, enc.obls...)
			for k, xfc := range enc.usedExterns {
				usedExterns[k] = xfc
			}
		}
		for _, lm := range cf.Lemmas {
			if !hasProp(lm.Props, prop) || lm.Axiom {
				continue
			}
			var o *Obligation
			var err error
			if lm.BV {
				o, err = eng.bvLemmaObligation(lp, lm)
			} else {
				o, err = eng.lemmaObligation(lp, lm)
			}
			if err != nil {
				rep.EngineErrors = append(rep.EngineErrors, err.Error())
				continue
			}
			obls = append(obls, o)
		}
	}
	// An assumed (extern) contract on a function of lnd itself whose body is loaded in this run is not
	// left assumed: the body is verified against the contract as the calling package states it.
	for _, key := range sortedKeys(usedExterns) {
		xfc := usedExterns[key]
		if !strings.Contains(key, "github.com/lightningnetwork/lnd/") || xfc.Unchecked {
			continue
		}
		fn := eng.findFunction(key)
		if fn == nil || len(fn.Blocks) == 0 || fn.Pkg == nil {
			continue // body not loaded (export data only): stays an assumption
		}
		lpT := eng.pkgByPath[fn.Pkg.Pkg.Path()]
		if lpT == nil {
			continue
		}
		enc, err := eng.encodeFunction(lpT, fn, xfc)
		if err != nil {
			rep.EngineErrors = append(rep.EngineErrors, err.Error())
			continue
		}
		short := shortKey(key)
		delete(rep.Assumptions, "assumed contract (not verified here): "+short)
		rep.Functions = append(rep.Functions, shortFnName(fn)+" [contract stated by "+shortKey(xfc.PkgPath)+"]")
		for a := range enc.assumps {
			rep.Assumptions[a] = true
		}
		for k := range enc.assumpEffectFree {
			rep.Assumptions["effect-free callee (A-log): "+shortKey(k)] = true
		}
		rep.AnchorMiss = append(rep.AnchorMiss, enc.anchorMissing...)
		for _, o := range enc.obls {
			o.Name = o.Name + "@" + shortKey(xfc.PkgPath)
		}
		obls = append(obls, enc.obls...)
	}
	*oblsOut = append(*oblsOut, obls...)
	return 0
}
