package main

// Must-fail corpus: realistic property-breaking edits applied as in-memory overlays.

import (
	"encoding/json"
	"fmt"
	"os"
	"path/filepath"
	"sort"
	"strings"
)

type Mutant struct {
	Name    string `json:"name"`
	File    string `json:"file"`    // relative to /repo
	Find    string `json:"find"`    // exact text (must occur exactly once unless Nth is set)
	Replace string `json:"replace"`
	Nth     int    `json:"nth"`     // 1-based occurrence (0: must be unique)
	Expect  string `json:"expect"`  // "violation" (default) or "pass"
	Note    string `json:"note"`
	Obligation string `json:"obligation"` // optional: substring of an obligation expected to fail
}

var dryRun bool
var lastViolations []string

func loadMutants(prop string) ([]Mutant, error) {
	dir := filepath.Join(verifRoot, "selftest", "mutants", prop)
	if d := os.Getenv("GOWP_MUTANT_DIR"); d != "" {
		dir = filepath.Join(d, prop)
	}
	ents, err := os.ReadDir(dir)
	if err != nil {
		return nil, nil
	}
	var out []Mutant
	for _, ent := range ents {
		if !strings.HasSuffix(ent.Name(), ".json") {
			continue
		}
		data, err := os.ReadFile(filepath.Join(dir, ent.Name()))
		if err != nil {
			return nil, err
		}
		var ms []Mutant
		if err := json.Unmarshal(data, &ms); err != nil {
			var m Mutant
			if err2 := json.Unmarshal(data, &m); err2 != nil {
				return nil, fmt.Errorf("%s: %v", ent.Name(), err)
			}
			ms = []Mutant{m}
		}
		for i := range ms {
			if ms[i].Name == "" {
				ms[i].Name = fmt.Sprintf("%s#%d", strings.TrimSuffix(ent.Name(), ".json"), i)
			}
		}
		out = append(out, ms...)
	}
	return out, nil
}

func applyMutant(m Mutant) (map[string][]byte, error) {
	path := filepath.Join(repoRoot, m.File)
	data, err := os.ReadFile(path)
	if err != nil {
		return nil, err
	}
	s := string(data)
	n := strings.Count(s, m.Find)
	if n == 0 {
		return nil, fmt.Errorf("mutant %s: text not found in %s", m.Name, m.File)
	}
	if m.Nth == 0 && n != 1 {
		return nil, fmt.Errorf("mutant %s: text occurs %d times in %s (set nth)", m.Name, n, m.File)
	}
	if m.Nth == 0 {
		s = strings.Replace(s, m.Find, m.Replace, 1)
	} else {
		idx := -1
		off := 0
		for k := 0; k < m.Nth; k++ {
			j := strings.Index(s[off:], m.Find)
			if j < 0 {
				return nil, fmt.Errorf("mutant %s: occurrence %d not found", m.Name, m.Nth)
			}
			idx = off + j
			off = idx + len(m.Find)
		}
		s = s[:idx] + m.Replace + s[idx+len(m.Find):]
	}
	return map[string][]byte{path: []byte(s)}, nil
}

// runSelftest runs the must-fail corpus; returns 0 when every mutant is detected.
func runSelftest(prop string, quiet bool) int {
	// Every mutant recompiles the mutated package and its dependents; those objects are useless
	// afterwards. They go to a build cache of their own, which is emptied once it has grown
	// beyond a few GB, so that the must-fail corpus cannot fill the disk.
	if os.Getenv("GOWP_KEEP_GOCACHE") == "" {
		home, _ := os.UserHomeDir()
		dir := filepath.Join(home, ".cache", "gowp-selftest-build")
		if err := os.MkdirAll(dir, 0o755); err == nil {
			os.Setenv("GOCACHE", dir)
			defer pruneDirIfLarger(dir, 8<<30)
		}
	}
	var props []string
	if prop != "" {
		props = []string{prop}
	} else {
		ents, _ := os.ReadDir(filepath.Join(verifRoot, "selftest", "mutants"))
		for _, e := range ents {
			if e.IsDir() {
				props = append(props, e.Name())
			}
		}
		sort.Strings(props)
	}
	bad := 0
	total := 0
	for _, p := range props {
		if d := os.Getenv("GOCACHE"); strings.Contains(d, "gowp-selftest-build") {
			pruneDirIfLarger(d, 8<<30)
			os.MkdirAll(d, 0o755)
		}
		ms, err := loadMutants(p)
		if err != nil {
			fmt.Fprintf(os.Stderr, "selftest: %v\n", err)
			return 2
		}
		only := os.Getenv("GOWP_MUTANT")
		for _, m := range ms {
			if only != "" && !strings.Contains(m.Name, only) {
				continue
			}
			total++
			ov, err := applyMutant(m)
			if err != nil {
				fmt.Printf("SELFTEST-STALE %s/%s: %v\n", p, m.Name, err)
				bad++
				continue
			}
			dryRun = true
			lastViolations = nil
			code, _ := runCheck(p, "quick", ov, true)
			dryRun = false
			want := 1
			if m.Expect == "pass" {
				want = 0
			}
			ok := code == want
			if ok && m.Obligation != "" && want == 1 {
				ok = false
				for _, v := range lastViolations {
					if strings.Contains(v, m.Obligation) {
						ok = true
					}
				}
			}
			if !ok {
				bad++
				fmt.Printf("SELFTEST-MISS %s/%s: exit %d (want %d); failed obligations: %v\n", p, m.Name, code, want, lastViolations)
			} else if !quiet || os.Getenv("GOWP_VERBOSE") != "" {
				fmt.Printf("selftest ok %s/%s: %v\n", p, m.Name, lastViolations)
			}
		}
	}
	fmt.Printf("selftest: %d mutants, %d not handled as expected\n", total, bad)
	if bad > 0 {
		return 3
	}
	return 0
}

// pruneDirIfLarger removes dir when its content exceeds limit bytes.
func pruneDirIfLarger(dir string, limit int64) {
	var total int64
	filepath.Walk(dir, func(_ string, info os.FileInfo, err error) error {
		if err == nil && !info.IsDir() {
			total += info.Size()
		}
		return nil
	})
	if total > limit {
		os.RemoveAll(dir)
	}
}
