package main

// "lemma bv": closed formulas about Go's fixed-width integer operators, proved in the theory of
// bit-vectors. The same formula, read in the Int theory (bit operators on two non-constant operands
// are uninterpreted symbols there), may then be used as a fact when verifying code.
//
// Contract arithmetic is mathematical: in the bit-vector reading every + - * << gets a side
// condition "does not wrap" that is part of the lemma's goal (under the lemma's hypothesis), so a
// lemma that silently relied on wrap-around is not provable.

import (
	"fmt"
	"math/big"
	"strings"
)

type bvT struct {
	s      string
	w      int // 0: untyped integer literal (lit set); -1: Bool
	signed bool
	lit    *big.Int
}

type bvCtx struct {
	vars  map[string]bvT
	side  []string
	decls []string
}

func goIntWidth(t string) (int, bool, bool) {
	switch t {
	case "uint8", "byte":
		return 8, false, true
	case "uint16":
		return 16, false, true
	case "uint32":
		return 32, false, true
	case "uint64", "uint", "uintptr":
		return 64, false, true
	case "int8":
		return 8, true, true
	case "int16":
		return 16, true, true
	case "int32":
		return 32, true, true
	case "int64", "int":
		return 64, true, true
	}
	return 0, false, false
}

func bvLit(v *big.Int, w int) string {
	m := new(big.Int).Lsh(big.NewInt(1), uint(w))
	x := new(big.Int).Mod(v, m)
	return fmt.Sprintf("(_ bv%s %d)", x.String(), w)
}

func (c *bvCtx) fail(format string, args ...any) {
	panic(contractPanic{fmt.Sprintf(format, args...)})
}

// coerce gives both operands a common width.
func (c *bvCtx) coerce(a, b bvT) (bvT, bvT) {
	switch {
	case a.w == 0 && b.w == 0:
		return a, b
	case a.w == 0:
		return bvT{s: bvLit(a.lit, b.w), w: b.w, signed: b.signed}, b
	case b.w == 0:
		return a, bvT{s: bvLit(b.lit, a.w), w: a.w, signed: a.signed}
	case a.w != b.w:
		c.fail("bit-vector lemma: operands of different widths (%d vs %d); convert explicitly", a.w, b.w)
	}
	return a, b
}

func (c *bvCtx) ext(t bvT, w int) string {
	if t.w == w {
		return t.s
	}
	if t.w > w {
		return fmt.Sprintf("((_ extract %d 0) %s)", w-1, t.s)
	}
	if t.signed {
		return fmt.Sprintf("((_ sign_extend %d) %s)", w-t.w, t.s)
	}
	return fmt.Sprintf("((_ zero_extend %d) %s)", w-t.w, t.s)
}

func (c *bvCtx) boolE(x CExpr) string {
	t := c.expr(x)
	if t.w != -1 {
		c.fail("boolean expected in %s", cexprString(x))
	}
	return t.s
}

func (c *bvCtx) expr(x CExpr) bvT {
	switch x := x.(type) {
	case CInt:
		return bvT{lit: x.V}
	case CIdent:
		switch x.Name {
		case "true":
			return bvT{s: "true", w: -1}
		case "false":
			return bvT{s: "false", w: -1}
		}
		v, ok := c.vars[x.Name]
		if !ok {
			c.fail("unknown identifier %s in bit-vector lemma", x.Name)
		}
		return v
	case CUn:
		switch x.Op {
		case "!":
			return bvT{s: "(not " + c.boolE(x.X) + ")", w: -1}
		case "^":
			t := c.expr(x.X)
			if t.w <= 0 {
				c.fail("^ needs a typed operand")
			}
			return bvT{s: "(bvnot " + t.s + ")", w: t.w, signed: t.signed}
		case "-":
			t := c.expr(x.X)
			if t.w == 0 {
				return bvT{lit: new(big.Int).Neg(t.lit)}
			}
			return bvT{s: "(bvneg " + t.s + ")", w: t.w, signed: t.signed}
		}
	case CBin:
		switch x.Op {
		case "&&":
			return bvT{s: "(and " + c.boolE(x.X) + " " + c.boolE(x.Y) + ")", w: -1}
		case "||":
			return bvT{s: "(or " + c.boolE(x.X) + " " + c.boolE(x.Y) + ")", w: -1}
		case "==>":
			return bvT{s: "(=> " + c.boolE(x.X) + " " + c.boolE(x.Y) + ")", w: -1}
		case "<==>":
			return bvT{s: "(= " + c.boolE(x.X) + " " + c.boolE(x.Y) + ")", w: -1}
		}
		a, b := c.expr(x.X), c.expr(x.Y)
		if x.Op == "<<" || x.Op == ">>" {
			return c.shift(x.Op, a, b)
		}
		if a.w == -1 || b.w == -1 {
			if x.Op == "==" {
				return bvT{s: "(= " + a.s + " " + b.s + ")", w: -1}
			}
			if x.Op == "!=" {
				return bvT{s: "(not (= " + a.s + " " + b.s + "))", w: -1}
			}
			c.fail("operator %s on booleans", x.Op)
		}
		a, b = c.coerce(a, b)
		if a.w == 0 {
			// constant folding on untyped literals
			r := new(big.Int)
			switch x.Op {
			case "+":
				r.Add(a.lit, b.lit)
			case "-":
				r.Sub(a.lit, b.lit)
			case "*":
				r.Mul(a.lit, b.lit)
			case "/":
				r.Quo(a.lit, b.lit)
			case "%":
				r.Rem(a.lit, b.lit)
			case "&":
				r.And(a.lit, b.lit)
			case "|":
				r.Or(a.lit, b.lit)
			case "^":
				r.Xor(a.lit, b.lit)
			default:
				cmp := a.lit.Cmp(b.lit)
				res := false
				switch x.Op {
				case "==":
					res = cmp == 0
				case "!=":
					res = cmp != 0
				case "<":
					res = cmp < 0
				case "<=":
					res = cmp <= 0
				case ">":
					res = cmp > 0
				case ">=":
					res = cmp >= 0
				default:
					c.fail("operator %s on literals", x.Op)
				}
				return bvT{s: fmt.Sprint(res), w: -1}
			}
			return bvT{lit: r}
		}
		w, sg := a.w, a.signed
		mk := func(op string) bvT { return bvT{s: "(" + op + " " + a.s + " " + b.s + ")", w: w, signed: sg} }
		cmpop := func(u, s string) bvT {
			op := u
			if sg {
				op = s
			}
			return bvT{s: "(" + op + " " + a.s + " " + b.s + ")", w: -1}
		}
		switch x.Op {
		case "+":
			// no wrap: compute in w+1 bits
			ea, eb := c.ext(a, w+1), c.ext(b, w+1)
			sum := "(bvadd " + ea + " " + eb + ")"
			c.side = append(c.side, c.fits(sum, w+1, w, sg))
			return mk("bvadd")
		case "-":
			ea, eb := c.ext(bvT{s: a.s, w: w, signed: sg}, w+1), c.ext(bvT{s: b.s, w: w, signed: sg}, w+1)
			if sg {
				c.side = append(c.side, c.fits("(bvsub "+ea+" "+eb+")", w+1, w, true))
			} else {
				c.side = append(c.side, "(bvuge "+a.s+" "+b.s+")")
			}
			return mk("bvsub")
		case "*":
			ea, eb := c.ext(a, 2*w), c.ext(b, 2*w)
			c.side = append(c.side, c.fits("(bvmul "+ea+" "+eb+")", 2*w, w, sg))
			return mk("bvmul")
		case "/":
			c.side = append(c.side, "(not (= "+b.s+" "+bvLit(big.NewInt(0), w)+"))")
			if sg {
				return mk("bvsdiv")
			}
			return mk("bvudiv")
		case "%":
			c.side = append(c.side, "(not (= "+b.s+" "+bvLit(big.NewInt(0), w)+"))")
			if sg {
				return mk("bvsrem")
			}
			return mk("bvurem")
		case "&":
			return mk("bvand")
		case "|":
			return mk("bvor")
		case "^":
			return mk("bvxor")
		case "==":
			return bvT{s: "(= " + a.s + " " + b.s + ")", w: -1}
		case "!=":
			return bvT{s: "(not (= " + a.s + " " + b.s + "))", w: -1}
		case "<":
			return cmpop("bvult", "bvslt")
		case "<=":
			return cmpop("bvule", "bvsle")
		case ">":
			return cmpop("bvugt", "bvsgt")
		case ">=":
			return cmpop("bvuge", "bvsge")
		}
		c.fail("unsupported operator %s in bit-vector lemma", x.Op)
	case CCall:
		id, ok := x.Fun.(CIdent)
		if !ok {
			c.fail("unsupported call in bit-vector lemma: %s", cexprString(x))
		}
		if w, sg, isInt := goIntWidth(id.Name); isInt && len(x.Args) == 1 {
			t := c.expr(x.Args[0])
			if t.w == 0 {
				return bvT{s: bvLit(t.lit, w), w: w, signed: sg}
			}
			r := bvT{s: c.ext(t, w), w: w, signed: sg}
			if t.w > w {
				// contract conversions are value-preserving: the value must fit the target type
				back := c.ext(bvT{s: r.s, w: w, signed: sg}, t.w)
				c.side = append(c.side, "(= "+back+" "+t.s+")")
			} else if t.signed != sg && t.w == w {
				c.side = append(c.side, "(bvsge "+t.s+" "+bvLit(big.NewInt(0), w)+")")
			} else if t.signed && !sg {
				c.side = append(c.side, "(bvsge "+t.s+" "+bvLit(big.NewInt(0), t.w)+")")
			}
			return r
		}
		switch {
		case strings.HasPrefix(id.Name, "bxor"), strings.HasPrefix(id.Name, "band"), strings.HasPrefix(id.Name, "bor"):
			a, b := c.expr(x.Args[0]), c.expr(x.Args[1])
			a, b = c.coerce(a, b)
			op := "bvxor"
			if strings.HasPrefix(id.Name, "bandnot") {
				return bvT{s: "(bvand " + a.s + " (bvnot " + b.s + "))", w: a.w, signed: a.signed}
			} else if strings.HasPrefix(id.Name, "band") {
				op = "bvand"
			} else if strings.HasPrefix(id.Name, "bor") {
				op = "bvor"
			}
			return bvT{s: "(" + op + " " + a.s + " " + b.s + ")", w: a.w, signed: a.signed}
		case id.Name == "ite":
			cond := c.boolE(x.Args[0])
			a, b := c.expr(x.Args[1]), c.expr(x.Args[2])
			a, b = c.coerce(a, b)
			if a.w == 0 {
				c.fail("ite over untyped literals")
			}
			return bvT{s: "(ite " + cond + " " + a.s + " " + b.s + ")", w: a.w, signed: a.signed}
		case id.Name == "fdiv":
			return c.expr(CBin{"/", x.Args[0], x.Args[1]})
		}
	}
	c.fail("unsupported expression in bit-vector lemma: %s", cexprString(x))
	return bvT{}
}

// fits: the value computed in `from` bits is representable in `to` bits.
func (c *bvCtx) fits(term string, from, to int, signed bool) string {
	if signed {
		lo := new(big.Int).Neg(new(big.Int).Lsh(big.NewInt(1), uint(to-1)))
		hi := new(big.Int).Sub(new(big.Int).Lsh(big.NewInt(1), uint(to-1)), big.NewInt(1))
		return "(and (bvsle " + bvLit(lo, from) + " " + term + ") (bvsle " + term + " " + bvLit(hi, from) + "))"
	}
	hi := new(big.Int).Sub(new(big.Int).Lsh(big.NewInt(1), uint(to)), big.NewInt(1))
	return "(bvule " + term + " " + bvLit(hi, from) + ")"
}

func (c *bvCtx) shift(op string, a, b bvT) bvT {
	if a.w == 0 && b.w == 0 {
		r := new(big.Int)
		if op == "<<" {
			r.Lsh(a.lit, uint(b.lit.Int64()))
		} else {
			r.Rsh(a.lit, uint(b.lit.Int64()))
		}
		return bvT{lit: r}
	}
	if a.w == 0 {
		// untyped constant shifted by a variable: Go types it as int (64 bits)... the context usually
		// converts; treat as unsigned 64-bit
		a = bvT{s: bvLit(a.lit, 64), w: 64}
	}
	var cnt string
	if b.w == 0 {
		cnt = bvLit(b.lit, a.w)
	} else if b.w <= a.w {
		cnt = c.ext(bvT{s: b.s, w: b.w, signed: false}, a.w)
	} else {
		// wider count: saturate
		big1 := bvLit(big.NewInt(int64(a.w)), b.w)
		cnt = "(ite (bvuge " + b.s + " " + big1 + ") " + bvLit(big.NewInt(int64(a.w)), a.w) + " ((_ extract " + fmt.Sprint(a.w-1) + " 0) " + b.s + "))"
	}
	if op == "<<" {
		res := "(bvshl " + a.s + " " + cnt + ")"
		// mathematical reading: no bits are lost
		back := "(bvlshr " + res + " " + cnt + ")"
		if a.signed {
			back = "(bvashr " + res + " " + cnt + ")"
		}
		c.side = append(c.side, "(and (bvult "+cnt+" "+bvLit(big.NewInt(int64(a.w)), a.w)+") (= "+back+" "+a.s+"))")
		return bvT{s: res, w: a.w, signed: a.signed}
	}
	if a.signed {
		return bvT{s: "(bvashr " + a.s + " " + cnt + ")", w: a.w, signed: true}
	}
	return bvT{s: "(bvlshr " + a.s + " " + cnt + ")", w: a.w}
}

// bvLemmaObligation builds the proof obligation of a "lemma bv".
func (eng *Engine) bvLemmaObligation(lp *LoadedPkg, lm *Lemma) (o *Obligation, err error) {
	defer func() {
		if r := recover(); r != nil {
			if cp, ok := r.(contractPanic); ok {
				err = fmt.Errorf("lemma %s: %s", lm.Name, cp.msg)
				return
			}
			err = fmt.Errorf("lemma %s: %v", lm.Name, r)
		}
	}()
	s := NewScript()
	c := &bvCtx{vars: map[string]bvT{}}
	for _, p := range lm.Params {
		name := quoteSym("bvl:" + p.Name)
		if p.Typ == "bool" {
			s.decls = append(s.decls, fmt.Sprintf("(declare-fun %s () Bool)", name))
			c.vars[p.Name] = bvT{s: name, w: -1}
			continue
		}
		w, sg, ok := goIntWidth(p.Typ)
		if !ok {
			return nil, fmt.Errorf("lemma %s: parameter %s needs a fixed-width integer type (got %q)", lm.Name, p.Name, p.Typ)
		}
		s.decls = append(s.decls, fmt.Sprintf("(declare-fun %s () (_ BitVec %d))", name, w))
		c.vars[p.Name] = bvT{s: name, w: w, signed: sg}
	}
	var goal string
	if imp, ok := lm.Body.Expr.(CBin); ok && imp.Op == "==>" {
		h := c.boolE(imp.X)
		hside := c.side
		c.side = nil
		concl := c.boolE(imp.Y)
		parts := append([]string{}, c.side...)
		parts = append(parts, concl)
		goal = "(and " + strings.Join(append(hside, "true"), " ") + " (=> " + h + " (and " + strings.Join(parts, " ") + ")))"
	} else {
		body := c.boolE(lm.Body.Expr)
		goal = "(and " + strings.Join(append(c.side, "true"), " ") + " " + body + ")"
	}
	name := lp.Pkg.Types.Name() + ".lemma-bv/" + lm.Name
	ob := s.NewObligation(Obligation{Name: name, Kind: "lemma", Fn: "lemma bv " + lm.Name, Goal: T{goal, SBool}, Desc: lm.Body.Text, Props: lm.Props})
	return ob, nil
}
