package main

// Contract files: comment-only Go files (//go:build verif) with Gobra-style //@ lines.

import (
	"fmt"
	"go/scanner"
	"go/token"
	"math/big"
	"os"
	"regexp"
	"strconv"
	"strings"
)

// ---------------------------------------------------------------------------------------------
// Contract expression AST

type CExpr interface{}

type CIdent struct{ Name string }
type CInt struct{ V *big.Int }
type CStr struct{ V string }
type CSel struct {
	X   CExpr
	Sel string
}
type CCall struct {
	Fun  CExpr
	Args []CExpr
}
type CIndex struct{ X, I CExpr }
type CUn struct {
	Op string
	X  CExpr
}
type CBin struct {
	Op   string
	X, Y CExpr
}

func cexprString(e CExpr) string {
	switch e := e.(type) {
	case CIdent:
		return e.Name
	case CInt:
		return e.V.String()
	case CStr:
		return strconv.Quote(e.V)
	case CSel:
		return cexprString(e.X) + "." + e.Sel
	case CCall:
		var as []string
		for _, a := range e.Args {
			as = append(as, cexprString(a))
		}
		return cexprString(e.Fun) + "(" + strings.Join(as, ", ") + ")"
	case CIndex:
		return cexprString(e.X) + "[" + cexprString(e.I) + "]"
	case CUn:
		return e.Op + cexprString(e.X)
	case CBin:
		return "(" + cexprString(e.X) + " " + e.Op + " " + cexprString(e.Y) + ")"
	}
	return "?"
}

type tok struct {
	t   token.Token
	lit string
}

type exprParser struct {
	toks []tok
	pos  int
	src  string
}

func parseCExpr(src string) (e CExpr, err error) {
	defer func() {
		if r := recover(); r != nil {
			err = fmt.Errorf("contract expression %q: %v", src, r)
		}
	}()
	s := strings.ReplaceAll(src, "<==>", " <- ")
	s = strings.ReplaceAll(s, "==>", " := ")
	var sc scanner.Scanner
	fset := token.NewFileSet()
	file := fset.AddFile("", fset.Base(), len(s))
	var errs []string
	sc.Init(file, []byte(s), func(pos token.Position, msg string) { errs = append(errs, msg) }, 0)
	p := &exprParser{src: src}
	for {
		_, t, lit := sc.Scan()
		if t == token.EOF {
			break
		}
		if t == token.SEMICOLON && lit == "\n" {
			continue
		}
		p.toks = append(p.toks, tok{t, lit})
	}
	if len(errs) > 0 {
		return nil, fmt.Errorf("contract expression %q: %s", src, errs[0])
	}
	e = p.parseBin(0)
	if p.pos != len(p.toks) {
		return nil, fmt.Errorf("contract expression %q: trailing tokens at %d (%v)", src, p.pos, p.toks[p.pos])
	}
	return e, nil
}

func (p *exprParser) peek() tok {
	if p.pos < len(p.toks) {
		return p.toks[p.pos]
	}
	return tok{token.EOF, ""}
}

func (p *exprParser) next() tok {
	t := p.peek()
	p.pos++
	return t
}

func (p *exprParser) expect(t token.Token) tok {
	n := p.next()
	if n.t != t {
		panic(fmt.Sprintf("expected %v, got %v %q", t, n.t, n.lit))
	}
	return n
}

// precedence: 1 <==>, 2 ==>, 3 ||, 4 &&, 5 comparisons, 6 + - | ^, 7 * / % << >> & &^
func binPrec(t token.Token) (int, string, bool) {
	switch t {
	case token.ARROW:
		return 1, "<==>", false
	case token.DEFINE:
		return 2, "==>", true
	case token.LOR:
		return 3, "||", false
	case token.LAND:
		return 4, "&&", false
	case token.EQL, token.NEQ, token.LSS, token.LEQ, token.GTR, token.GEQ:
		return 5, t.String(), false
	case token.ADD, token.SUB, token.OR, token.XOR:
		return 6, t.String(), false
	case token.MUL, token.QUO, token.REM, token.SHL, token.SHR, token.AND, token.AND_NOT:
		return 7, t.String(), false
	}
	return 0, "", false
}

func (p *exprParser) parseBin(minPrec int) CExpr {
	x := p.parseUnary()
	for {
		prec, op, rassoc := binPrec(p.peek().t)
		if prec == 0 || prec < minPrec {
			return x
		}
		p.next()
		var y CExpr
		if rassoc {
			y = p.parseBin(prec)
		} else {
			y = p.parseBin(prec + 1)
		}
		x = CBin{op, x, y}
	}
}

func (p *exprParser) parseUnary() CExpr {
	switch p.peek().t {
	case token.NOT:
		p.next()
		return CUn{"!", p.parseUnary()}
	case token.SUB:
		p.next()
		return CUn{"-", p.parseUnary()}
	case token.XOR:
		p.next()
		return CUn{"^", p.parseUnary()}
	case token.MUL:
		p.next()
		return CUn{"*", p.parseUnary()}
	case token.AND:
		p.next()
		return CUn{"&", p.parseUnary()}
	case token.ADD:
		p.next()
		return p.parseUnary()
	}
	return p.parsePostfix(p.parsePrimary())
}

func (p *exprParser) parsePrimary() CExpr {
	t := p.next()
	switch t.t {
	case token.IDENT:
		return CIdent{t.lit}
	case token.INT:
		v, ok := new(big.Int).SetString(strings.ReplaceAll(t.lit, "_", ""), 0)
		if !ok {
			panic("bad int literal " + t.lit)
		}
		return CInt{v}
	case token.CHAR:
		s, err := strconv.Unquote(t.lit)
		if err != nil || len(s) == 0 {
			panic("bad char literal")
		}
		return CInt{big.NewInt(int64([]rune(s)[0]))}
	case token.STRING:
		s, err := strconv.Unquote(t.lit)
		if err != nil {
			panic("bad string literal")
		}
		return CStr{s}
	case token.LPAREN:
		e := p.parseBin(0)
		p.expect(token.RPAREN)
		return e
	case token.FUNC, token.MAP, token.CHAN, token.STRUCT, token.INTERFACE:
		panic("type literals are not supported in contracts")
	}
	panic(fmt.Sprintf("unexpected token %v %q", t.t, t.lit))
}

func (p *exprParser) parsePostfix(x CExpr) CExpr {
	for {
		switch p.peek().t {
		case token.PERIOD:
			p.next()
			id := p.expect(token.IDENT)
			x = CSel{x, id.lit}
		case token.LPAREN:
			p.next()
			var args []CExpr
			for p.peek().t != token.RPAREN {
				args = append(args, p.parseBin(0))
				if p.peek().t == token.COMMA {
					p.next()
				} else {
					break
				}
			}
			p.expect(token.RPAREN)
			x = CCall{x, args}
		case token.LBRACK:
			p.next()
			i := p.parseBin(0)
			p.expect(token.RBRACK)
			x = CIndex{x, i}
		default:
			return x
		}
	}
}

// ---------------------------------------------------------------------------------------------
// Contract structures

type Clause struct {
	Expr CExpr
	Text string
}

type Site struct {
	Kind   string // call, alloc, return, store
	Target string // callee / type / "nil" | "nonnil" | "" / T.f
	Assert Clause
	Assume bool // domain restriction: assumed, not proved
	Label  string
	Nth    int // -1: every match; k: only the k-th match in encounter order
}

type LoopAnn struct {
	Havoc      bool
	Invariants []Clause
	Steps      []Clause // relation between one iteration's entry (prev(x)) and its back edge (x)
	Entries    []Clause // must hold when the loop is first reached (proved, never assumed)
}

type SpecFunc struct {
	Name    string
	Params  []SpecParam
	Ret     string // int, bool
	Body    CExpr
	Text    string
	Uninter bool // declared without body
	Pkg     string
}

type SpecParam struct {
	Name string
	Typ  string // int, bool
}

type Lemma struct {
	Name   string
	Props  []string
	Params []SpecParam
	Body   Clause
	Pkg    string
	Axiom  bool // assumed, not proved (listed under A-fp / assumptions)
	Uses   []string
	BV     bool // proved in the theory of bit-vectors (parameters have fixed-width Go integer types)
}

type FuncContract struct {
	Header    string // as written
	Recv      string // "" | "T" | "*T"   (possibly pkg-qualified for extern)
	RecvName  string
	Name      string // possibly pkg.Name for extern
	Extern    bool
	Props     []string
	Lets      []struct{ Name string; Expr Clause }
	Requires  []Clause
	Ensures   []Clause
	NoWrap    bool
	NoWrapArith bool // like nowrap, but conversions between integer types may truncate
	NoPanic   bool
	BoundsSafe bool // only index / slice bounds obligations (a subset of nopanic)
	SingleExit bool // the function leaves only through its last return statement (no early return)
	BV        bool
	Inline    bool
	Pure      bool
	Trusted   bool // contract is assumed, body not verified (listed as assumption)
	Unchecked bool // extern contract on an lnd function whose body is deliberately not verified against it
	Modifies  []Clause
	ModGiven  bool
	ModAssumed bool // the frame is assumed, not checked (listed as an assumption)
	Sites     []Site
	Covers    bool
	CoverNoSites bool
	CoverExc  []string // ret(X) exceptions
	Loops     map[int]*LoopAnn
	AllLoops  *LoopAnn
	PkgPath   string
	File      string
	ParamNames []string // for extern: explicit parameter names
	Replay    string   // "scalar" if the function can be replayed with scalar inputs
	Uses      []string // lemmas / axioms assumed (quantified) while verifying this function
}

type ContractFile struct {
	PkgPath   string
	Path      string
	Funcs     []*FuncContract
	Specs     []*SpecFunc
	Lemmas    []*Lemma
	EffectFree []string
	InlinePkgs []string
	LoadPkgs   []string
	InlineFuncs []string
}

var siteAssertRe = regexp.MustCompile(`:\s*(assert|domain)\s+`)

var clauseKeywords = map[string]bool{
	"spec": true, "func": true, "extern": true, "lemma": true, "props": true, "requires": true,
	"ensures": true, "nowrap": true, "nowrap-arith": true, "nopanic": true, "bounds-safe": true, "single-exit": true, "theory": true, "inline": true, "pure": true,
	"modifies": true, "site": true, "covers-nonnil-returns": true, "loop": true, "let": true,
	"trusted": true, "unchecked": true, "effect-free": true, "inline-pkg": true, "replay": true, "load-pkg": true, "inline-func": true, "axiom": true, "uses": true, "modifies-assumed": true,
}

// ParseContractFile reads the //@ lines of a contract file and groups them into clauses.
func ParseContractFile(path, pkgPath string) (*ContractFile, error) {
	data, err := os.ReadFile(path)
	if err != nil {
		return nil, err
	}
	cf := &ContractFile{PkgPath: pkgPath, Path: path}
	// collect logical clauses
	type rawClause struct {
		kw   string
		text string
		line int
	}
	var clauses []rawClause
	for i, line := range strings.Split(string(data), "\n") {
		tl := strings.TrimSpace(line)
		if !strings.HasPrefix(tl, "//@") {
			continue
		}
		body := strings.TrimSpace(strings.TrimPrefix(tl, "//@"))
		if body == "" {
			continue
		}
		// strip trailing comment introduced by " // "
		if j := strings.Index(body, " // "); j >= 0 {
			body = strings.TrimSpace(body[:j])
		}
		if strings.HasPrefix(body, "// ") || body == "//" {
			continue
		}
		kw := body
		if j := strings.IndexAny(body, " \t"); j >= 0 {
			kw = body[:j]
		}
		if clauseKeywords[kw] {
			clauses = append(clauses, rawClause{kw, strings.TrimSpace(body[len(kw):]), i + 1})
		} else {
			if len(clauses) == 0 {
				return nil, fmt.Errorf("%s:%d: continuation line without clause", path, i+1)
			}
			clauses[len(clauses)-1].text += " " + body
		}
	}
	var cur *FuncContract
	var curLemma *Lemma
	mkClause := func(text string, line int) (Clause, error) {
		e, err := parseCExpr(text)
		if err != nil {
			return Clause{}, fmt.Errorf("%s:%d: %v", path, line, err)
		}
		return Clause{e, text}, nil
	}
	for _, rc := range clauses {
		switch rc.kw {
		case "effect-free":
			cf.EffectFree = append(cf.EffectFree, strings.Fields(rc.text)...)
			continue
		case "inline-pkg":
			cf.InlinePkgs = append(cf.InlinePkgs, strings.Fields(rc.text)...)
			continue
		case "load-pkg":
			cf.LoadPkgs = append(cf.LoadPkgs, strings.Fields(rc.text)...)
			continue
		case "inline-func":
			cf.InlineFuncs = append(cf.InlineFuncs, strings.Fields(rc.text)...)
			continue
		case "spec":
			sf, err := parseSpecFunc(rc.text)
			if err != nil {
				return nil, fmt.Errorf("%s:%d: %v", path, rc.line, err)
			}
			sf.Pkg = pkgPath
			cf.Specs = append(cf.Specs, sf)
			cur, curLemma = nil, nil
			continue
		case "lemma", "axiom":
			// lemma NAME(params): body
			j := strings.Index(rc.text, ":")
			if j < 0 {
				return nil, fmt.Errorf("%s:%d: lemma needs ':'", path, rc.line)
			}
			head := strings.TrimSpace(rc.text[:j])
			lm := &Lemma{Pkg: pkgPath, Axiom: rc.kw == "axiom"}
			if strings.HasPrefix(head, "bv ") {
				lm.BV = true
				head = strings.TrimSpace(head[3:])
			}
			if k := strings.Index(head, "("); k >= 0 {
				lm.Name = strings.TrimSpace(head[:k])
				ps, err := parseSpecParams(strings.TrimSuffix(strings.TrimSpace(head[k+1:]), ")"))
				if err != nil {
					return nil, fmt.Errorf("%s:%d: %v", path, rc.line, err)
				}
				lm.Params = ps
			} else {
				lm.Name = head
			}
			c, err := mkClause(rc.text[j+1:], rc.line)
			if err != nil {
				return nil, err
			}
			lm.Body = c
			cf.Lemmas = append(cf.Lemmas, lm)
			cur, curLemma = nil, lm
			continue
		case "func", "extern":
			text := rc.text
			fc := &FuncContract{PkgPath: pkgPath, File: path, Loops: map[int]*LoopAnn{}}
			if rc.kw == "extern" {
				fc.Extern = true
				text = strings.TrimSpace(strings.TrimPrefix(text, "func"))
			}
			fc.Header = text
			if strings.HasPrefix(text, "(") {
				j := strings.Index(text, ")")
				if j < 0 {
					return nil, fmt.Errorf("%s:%d: bad receiver", path, rc.line)
				}
				recv := strings.Fields(text[1:j])
				switch len(recv) {
				case 1:
					fc.Recv = recv[0]
				case 2:
					fc.RecvName, fc.Recv = recv[0], recv[1]
				default:
					return nil, fmt.Errorf("%s:%d: bad receiver", path, rc.line)
				}
				text = strings.TrimSpace(text[j+1:])
			}
			// optional explicit parameter names: Name(a, b, c)
			if k := strings.Index(text, "("); k >= 0 {
				ps := strings.TrimSuffix(strings.TrimSpace(text[k+1:]), ")")
				for _, p := range strings.Split(ps, ",") {
					p = strings.TrimSpace(p)
					if p != "" {
						fc.ParamNames = append(fc.ParamNames, p)
					}
				}
				text = strings.TrimSpace(text[:k])
			}
			fc.Name = text
			if fc.Name == "" || strings.ContainsAny(fc.Name, " \t") {
				return nil, fmt.Errorf("%s:%d: bad function name %q", path, rc.line, fc.Name)
			}
			// a second block for a function that already has one in this file adds clauses to it (the
			// generated layout contracts of lnwire live in their own region of the file)
			merged := false
			if !fc.Extern {
				for _, o := range cf.Funcs {
					if !o.Extern && o.Name == fc.Name && o.Recv == fc.Recv {
						fc, merged = o, true
						break
					}
				}
			}
			if !merged {
				cf.Funcs = append(cf.Funcs, fc)
			}
			cur, curLemma = fc, nil
			continue
		}
		if rc.kw == "props" {
			if curLemma != nil {
				curLemma.Props = append(curLemma.Props, strings.Fields(rc.text)...)
				continue
			}
		}
		if rc.kw == "uses" && curLemma != nil {
			curLemma.Uses = append(curLemma.Uses, splitTopLevel(rc.text, ';')...)
			continue
		}
		if cur == nil {
			return nil, fmt.Errorf("%s:%d: clause %q outside func", path, rc.line, rc.kw)
		}
		switch rc.kw {
		case "props":
			cur.Props = append(cur.Props, strings.Fields(rc.text)...)
		case "requires", "ensures":
			c, err := mkClause(rc.text, rc.line)
			if err != nil {
				return nil, err
			}
			if rc.kw == "requires" {
				cur.Requires = append(cur.Requires, c)
			} else {
				cur.Ensures = append(cur.Ensures, c)
			}
		case "let":
			j := strings.Index(rc.text, "=")
			if j < 0 {
				return nil, fmt.Errorf("%s:%d: let needs '='", path, rc.line)
			}
			c, err := mkClause(rc.text[j+1:], rc.line)
			if err != nil {
				return nil, err
			}
			cur.Lets = append(cur.Lets, struct {
				Name string
				Expr Clause
			}{strings.TrimSpace(rc.text[:j]), c})
		case "nowrap":
			cur.NoWrap = true
		case "nowrap-arith":
			cur.NoWrap = true
			cur.NoWrapArith = true
		case "nopanic":
			cur.NoPanic = true
		case "bounds-safe":
			cur.BoundsSafe = true
		case "single-exit":
			cur.SingleExit = true
		case "theory":
			if strings.TrimSpace(rc.text) == "bv" {
				cur.BV = true
			} else {
				return nil, fmt.Errorf("%s:%d: unknown theory %q", path, rc.line, rc.text)
			}
		case "inline":
			cur.Inline = true
		case "pure":
			cur.Pure = true
		case "unchecked":
			cur.Unchecked = true
		case "trusted":
			cur.Trusted = true
		case "replay":
			cur.Replay = strings.TrimSpace(rc.text)
		case "uses":
			cur.Uses = append(cur.Uses, splitTopLevel(rc.text, ';')...)
		case "modifies", "modifies-assumed":
			cur.ModGiven = true
			if rc.kw == "modifies-assumed" {
				cur.ModAssumed = true
			}
			if strings.TrimSpace(rc.text) != "nothing" {
				for _, part := range splitTopLevel(rc.text, ',') {
					c, err := mkClause(part, rc.line)
					if err != nil {
						return nil, err
					}
					cur.Modifies = append(cur.Modifies, c)
				}
			}
		case "covers-nonnil-returns":
			cur.Covers = true
			t := strings.TrimSpace(rc.text)
			if strings.HasPrefix(t, "nosites") {
				// only the listed exceptions may produce non-nil results; site clauses do not count
				cur.CoverNoSites = true
				t = strings.TrimSpace(strings.TrimPrefix(t, "nosites"))
			}
			if strings.HasPrefix(t, "except") {
				for _, part := range splitTopLevel(strings.TrimPrefix(t, "except"), ',') {
					part = strings.TrimSpace(part)
					part = strings.TrimSuffix(strings.TrimPrefix(part, "ret("), ")")
					cur.CoverExc = append(cur.CoverExc, part)
				}
			}
		case "site":
			// site KIND TARGET [as LABEL]: assert EXPR
			loc := siteAssertRe.FindStringIndex(rc.text)
			if loc == nil {
				return nil, fmt.Errorf("%s:%d: site needs ': assert'", path, rc.line)
			}
			j := loc[0]
			head := strings.Fields(rc.text[:j])
			if len(head) < 1 {
				return nil, fmt.Errorf("%s:%d: bad site", path, rc.line)
			}
			st := Site{Kind: head[0], Nth: -1}
			rest := head[1:]
			for k := 0; k < len(rest); k++ {
				if rest[k] == "as" && k+1 < len(rest) {
					st.Label = rest[k+1]
					k++
				} else if rest[k] == "nth" && k+1 < len(rest) {
					n, err := strconv.Atoi(rest[k+1])
					if err != nil {
						return nil, fmt.Errorf("%s:%d: bad nth", path, rc.line)
					}
					st.Nth = n
					k++
				} else if st.Target == "" {
					st.Target = rest[k]
				} else {
					return nil, fmt.Errorf("%s:%d: bad site head %q", path, rc.line, rc.text[:j])
				}
			}
			c, err := mkClause(rc.text[loc[1]:], rc.line)
			if err != nil {
				return nil, err
			}
			st.Assert = c
			// "domain E": E is ASSUMED at the program point (a stated restriction of the domain
			// the property is claimed on, listed in the evidence), not proved
			st.Assume = strings.Contains(rc.text[loc[0]:loc[1]], "domain")
			cur.Sites = append(cur.Sites, st)
		case "loop":
			f := strings.Fields(rc.text)
			if len(f) < 2 {
				return nil, fmt.Errorf("%s:%d: bad loop clause", path, rc.line)
			}
			var la *LoopAnn
			if f[0] == "*" {
				if cur.AllLoops == nil {
					cur.AllLoops = &LoopAnn{}
				}
				la = cur.AllLoops
			} else {
				k, err := strconv.Atoi(f[0])
				if err != nil {
					return nil, fmt.Errorf("%s:%d: bad loop ordinal", path, rc.line)
				}
				if cur.Loops[k] == nil {
					cur.Loops[k] = &LoopAnn{}
				}
				la = cur.Loops[k]
			}
			switch f[1] {
			case "havoc":
				la.Havoc = true
			case "invariant":
				idx := strings.Index(rc.text, "invariant")
				c, err := mkClause(rc.text[idx+len("invariant"):], rc.line)
				if err != nil {
					return nil, err
				}
				la.Invariants = append(la.Invariants, c)
			case "entry":
				idx := strings.Index(rc.text, "entry")
				c, err := mkClause(rc.text[idx+len("entry"):], rc.line)
				if err != nil {
					return nil, err
				}
				la.Entries = append(la.Entries, c)
			case "step":
				idx := strings.Index(rc.text, "step")
				c, err := mkClause(rc.text[idx+len("step"):], rc.line)
				if err != nil {
					return nil, err
				}
				la.Steps = append(la.Steps, c)
			default:
				return nil, fmt.Errorf("%s:%d: bad loop clause %q", path, rc.line, f[1])
			}
		default:
			return nil, fmt.Errorf("%s:%d: unexpected clause %q", path, rc.line, rc.kw)
		}
	}
	return cf, nil
}

func splitTopLevel(s string, sep byte) []string {
	var parts []string
	depth := 0
	start := 0
	for i := 0; i < len(s); i++ {
		switch s[i] {
		case '(', '[':
			depth++
		case ')', ']':
			depth--
		default:
			if s[i] == sep && depth == 0 {
				parts = append(parts, strings.TrimSpace(s[start:i]))
				start = i + 1
			}
		}
	}
	if strings.TrimSpace(s[start:]) != "" {
		parts = append(parts, strings.TrimSpace(s[start:]))
	}
	return parts
}

func parseSpecParams(s string) ([]SpecParam, error) {
	var ps []SpecParam
	var pending []string
	for _, part := range splitTopLevel(s, ',') {
		f := strings.Fields(part)
		switch len(f) {
		case 1:
			pending = append(pending, f[0])
		case 2:
			pending = append(pending, f[0])
			for _, n := range pending {
				ps = append(ps, SpecParam{n, f[1]})
			}
			pending = nil
		default:
			return nil, fmt.Errorf("bad parameter list %q", s)
		}
	}
	if len(pending) > 0 {
		return nil, fmt.Errorf("parameters without type in %q", s)
	}
	return ps, nil
}

// spec func NAME(params) RET = BODY   |  spec func NAME(params) RET
func parseSpecFunc(text string) (*SpecFunc, error) {
	text = strings.TrimSpace(text)
	if !strings.HasPrefix(text, "func ") {
		return nil, fmt.Errorf("spec: expected 'func'")
	}
	text = strings.TrimSpace(text[5:])
	i := strings.Index(text, "(")
	if i < 0 {
		return nil, fmt.Errorf("spec func: missing '('")
	}
	sf := &SpecFunc{Name: strings.TrimSpace(text[:i]), Text: text}
	// find matching paren
	depth := 0
	j := i
	for ; j < len(text); j++ {
		if text[j] == '(' {
			depth++
		} else if text[j] == ')' {
			depth--
			if depth == 0 {
				break
			}
		}
	}
	ps, err := parseSpecParams(text[i+1 : j])
	if err != nil {
		return nil, err
	}
	sf.Params = ps
	rest := strings.TrimSpace(text[j+1:])
	k := strings.Index(rest, "=")
	if k < 0 {
		sf.Ret = strings.TrimSpace(rest)
		sf.Uninter = true
		return sf, nil
	}
	sf.Ret = strings.TrimSpace(rest[:k])
	e, err := parseCExpr(rest[k+1:])
	if err != nil {
		return nil, err
	}
	sf.Body = e
	return sf, nil
}
