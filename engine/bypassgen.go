package main

// bypassgen: for every function under contract of a property whose last result is an error, a mutant that lets the
// function report success without doing anything (guarded by an unconstrained package-level flag). A contract that
// does not notice the mutant says nothing about what success means - typically a contract made of site clauses only.

import (
	"encoding/json"
	"fmt"
	"go/ast"
	"go/parser"
	"go/token"
	"os"
	"path/filepath"
	"strings"
)

func runBypassGen(prop, outDir string) int {
	eng := NewEngine()
	if err := eng.discoverContracts(); err != nil {
		fmt.Fprintln(os.Stderr, err)
		return 2
	}
	var out []Mutant
	n := 0
	for _, cf := range eng.contractFiles {
		dir := filepath.Dir(cf.Path)
		fset := token.NewFileSet()
		pkgs, err := parser.ParseDir(fset, dir, func(fi os.FileInfo) bool {
			return !strings.HasSuffix(fi.Name(), "_test.go") && !strings.HasPrefix(fi.Name(), "zz_verif")
		}, 0)
		if err != nil {
			continue
		}
		for _, fc := range cf.Funcs {
			if !hasProp(fc.Props, prop) || fc.Extern || fc.Trusted || strings.Contains(fc.Name, "$") {
				continue
			}
			recv := strings.TrimPrefix(fc.Recv, "*")
			for _, pkg := range pkgs {
				for fname, f := range pkg.Files {
					for _, d := range f.Decls {
						fd, ok := d.(*ast.FuncDecl)
						if !ok || fd.Body == nil || fd.Name.Name != fc.Name || fd.Type.Results == nil {
							continue
						}
						r := ""
						if fd.Recv != nil && len(fd.Recv.List) == 1 {
							t := fd.Recv.List[0].Type
							if st, ok := t.(*ast.StarExpr); ok {
								t = st.X
							}
							if ix, ok := t.(*ast.IndexExpr); ok {
								t = ix.X
							}
							if id, ok := t.(*ast.Ident); ok {
								r = id.Name
							}
						}
						if r != recv {
							continue
						}
						res := fd.Type.Results.List
						last := res[len(res)-1]
						if id, ok := last.Type.(*ast.Ident); !ok || id.Name != "error" {
							continue
						}
						src, err := os.ReadFile(fname)
						if err != nil {
							continue
						}
						text := func(a, b token.Pos) string { return string(src[fset.Position(a).Offset:fset.Position(b).Offset]) }
						sig := text(fd.Pos(), fd.Body.Lbrace+1)
						n++
						flag := fmt.Sprintf("zzVerifBypass%d", n)
						var body strings.Builder
						named := len(last.Names) > 0
						if named {
							body.WriteString("\t\treturn\n")
						} else {
							var rets []string
							k := 0
							for _, fl := range res {
								cnt := len(fl.Names)
								if cnt == 0 {
									cnt = 1
								}
								for c := 0; c < cnt; c++ {
									if fl == last && c == cnt-1 {
										rets = append(rets, "nil")
										continue
									}
									v := fmt.Sprintf("zzr%d", k)
									k++
									fmt.Fprintf(&body, "\t\tvar %s %s\n", v, text(fl.Type.Pos(), fl.Type.End()))
									rets = append(rets, v)
								}
							}
							fmt.Fprintf(&body, "\t\treturn %s\n", strings.Join(rets, ", "))
						}
						rel, _ := filepath.Rel(repoRoot, fname)
						out = append(out, Mutant{
							Name:    "bypass-" + strings.ReplaceAll(fc.Recv, "*", "") + "." + fc.Name,
							File:    rel,
							Find:    sig,
							Replace: "var " + flag + " bool\n\n" + sig + "\n\tif " + flag + " {\n" + body.String() + "\t}\n",
						})
					}
				}
			}
		}
	}
	os.MkdirAll(filepath.Join(outDir, prop), 0o755)
	data, _ := json.MarshalIndent(out, "", " ")
	os.WriteFile(filepath.Join(outDir, prop, "bypass.json"), data, 0o644)
	fmt.Printf("bypassgen %s: %d mutants -> %s\n", prop, len(out), filepath.Join(outDir, prop, "bypass.json"))
	return 0
}
