package main

// Translation of contract expressions to SMT terms in a given program state.

import (
	"go/token"
	"fmt"
	"os"
	"regexp"
	"go/constant"
	"go/types"
	"math/big"
	"strings"

	"golang.org/x/tools/go/ssa"
)

type TV struct {
	V   Val
	Typ types.Type // nil for mathematical terms
}

type ExprCtx struct {
	e     *Enc
	fr    *Frame // frame for resolving local names (nil in callee-contract mode)
	st    *State // current state
	old   *State // state for old(...)
	block *ssa.BasicBlock
	idx   int

	// callee-contract mode
	params  map[string]TV
	pkg     *types.Package // package whose scope resolves constants / globals / imports
	results []TV
	resNames map[string]int

	phiOverride map[ssa.Value]Val
	atLoopHead  *loopInfo
	callArgs    []TV // at a call site
	callArgNames []string
	bound       map[string]TV
	storeVal    *TV
	fc          *FuncContract // for lets
	letDepth    int
	lenient     bool
	stepLoop    *loopInfo
}

type contractPanic struct{ msg string }

func (c *ExprCtx) fail(format string, args ...any) {
	panic(contractPanic{fmt.Sprintf(format, args...)})
}

func (c *ExprCtx) boolExpr(x CExpr) T {
	tv := c.expr(x)
	t, ok := tv.V.(T)
	if ok && t.Sort == SInt && c.lenient && strings.Contains(t.S, "outofscope:") {
		// a name that is not in scope at this program point, used as a boolean
		return c.e.s.Const("outofscope-bool", SBool)
	}
	if !ok || t.Sort != SBool {
		c.fail("expected boolean contract expression, got %T in %s", tv.V, cexprString(x))
	}
	return t
}

func (c *ExprCtx) intExpr(x CExpr) T {
	tv := c.expr(x)
	t, ok := tv.V.(T)
	if !ok || t.Sort != SInt {
		if p, ok := tv.V.(*PtrV); ok {
			return c.e.ptrTerm(p)
		}
		c.fail("expected integer contract expression in %s (got %T)", cexprString(x), tv.V)
	}
	return t
}

func (c *ExprCtx) floatExpr(x CExpr) T {
	tv := c.expr(x)
	t, ok := tv.V.(T)
	if !ok || t.Sort != SF {
		c.fail("expected float contract expression in %s", cexprString(x))
	}
	return t
}

func (c *ExprCtx) withBound(name string, v TV) *ExprCtx {
	n := *c
	n.bound = map[string]TV{}
	for k, x := range c.bound {
		n.bound[k] = x
	}
	n.bound[name] = v
	return &n
}

func (c *ExprCtx) inOld() *ExprCtx {
	n := *c
	if c.old != nil {
		n.st = c.old
	}
	return &n
}

func (c *ExprCtx) scopePkg() *types.Package {
	if c.pkg != nil {
		return c.pkg
	}
	if c.fr != nil && c.fr.fn.Pkg != nil {
		return c.fr.fn.Pkg.Pkg
	}
	if c.e.fn != nil && c.e.fn.Pkg != nil {
		return c.e.fn.Pkg.Pkg
	}
	return nil
}

func (c *ExprCtx) expr(x CExpr) TV {
	e := c.e
	switch x := x.(type) {
	case CInt:
		return TV{V: IntBig(x.V)}
	case CStr:
		return TV{V: e.stringConst(x.V), Typ: types.Typ[types.String]}
	case CIdent:
		return c.ident(x.Name)
	case CUn:
		switch x.Op {
		case "!":
			return TV{V: Not(c.boolExpr(x.X)), Typ: types.Typ[types.Bool]}
		case "-":
			return TV{V: Sub(IntLit(0), c.intExpr(x.X))}
		case "*":
			tv := c.expr(x.X)
			return c.deref(tv)
		case "&":
			c.fail("& not supported in contracts")
		}
		c.fail("unsupported unary %s", x.Op)
	case CBin:
		return c.binary(x)
	case CSel:
		// package-qualified identifier?
		if id, ok := x.X.(CIdent); ok {
			if _, shadow := c.bound[id.Name]; !shadow {
				if p := c.importedPkg(id.Name); p != nil && !c.isValueName(id.Name) {
					return c.pkgMember(p, x.Sel)
				}
			}
		}
		if a, t, ok := c.lvalue(x); ok {
			return TV{V: e.load(c.st, a, t), Typ: t}
		}
		base := c.expr(x.X)
		return c.selectField(base, x.Sel)
	case CIndex:
		base := c.expr(x.X)
		return c.indexExpr(base, x.I)
	case CCall:
		return c.call(x)
	}
	c.fail("unsupported contract expression %s", cexprString(x))
	return TV{}
}

func (c *ExprCtx) isValueName(name string) bool {
	if _, ok := c.params[name]; ok {
		return true
	}
	if c.fr != nil {
		for _, p := range c.fr.fn.Params {
			if p.Name() == name {
				return true
			}
		}
	}
	return false
}

func (c *ExprCtx) importedPkg(name string) *types.Package {
	p := c.scopePkg()
	if p == nil {
		return nil
	}
	for _, imp := range p.Imports() {
		if imp.Name() == name {
			return imp
		}
	}
	// import aliases: look into the loaded package's file scopes
	if lp := c.e.eng.pkgByPath[p.Path()]; lp != nil {
		if path, ok := lp.importAliases[name]; ok {
			for _, imp := range p.Imports() {
				if imp.Path() == path {
					return imp
				}
			}
		}
	}
	return nil
}

func (c *ExprCtx) pkgMember(p *types.Package, name string) TV {
	obj := p.Scope().Lookup(name)
	if obj == nil {
		c.fail("%s.%s not found", p.Name(), name)
	}
	return c.objectValue(obj)
}

func (c *ExprCtx) objectValue(obj types.Object) TV {
	e := c.e
	switch o := obj.(type) {
	case *types.Const:
		return c.constValue(o.Val(), o.Type())
	case *types.Var:
		// package-level variable: read the global
		g := e.eng.globalFor(o)
		if g == nil {
			// variable of a package loaded without SSA: model as a named constant location
			key := "g:" + o.Pkg().Path() + "." + o.Name()
			ls := leavesOf(o.Type())
			ts := make([]T, len(ls))
			for i, lf := range ls {
				ts[i] = e.get(c.st, key+lf.path, lf.sort)
			}
			v, _ := e.unflatten(o.Type(), ts)
			return TV{V: v, Typ: o.Type()}
		}
		return TV{V: e.load(c.st, Addr{Kind: AGlobal, G: g}, o.Type()), Typ: o.Type()}
	}
	c.fail("unsupported package member %s", obj.Name())
	return TV{}
}

func (c *ExprCtx) constValue(v constant.Value, t types.Type) TV {
	switch v.Kind() {
	case constant.Bool:
		if constant.BoolVal(v) {
			return TV{V: True, Typ: t}
		}
		return TV{V: False, Typ: t}
	case constant.Int:
		bi, ok := constant.Val(v).(*big.Int)
		if !ok {
			i64, _ := constant.Int64Val(v)
			bi = big.NewInt(i64)
		}
		return TV{V: IntBig(bi), Typ: t}
	case constant.String:
		return TV{V: c.e.stringConst(constant.StringVal(v)), Typ: t}
	case constant.Float:
		if iv := constant.ToInt(v); iv.Kind() == constant.Int {
			return c.constValue(iv, t)
		}
	}
	c.fail("unsupported constant kind")
	return TV{}
}

func (c *ExprCtx) ident(name string) TV {
	e := c.e
	if os.Getenv("GOWP_DEBUG") == "names" && name == "entry" {
		_, inBound := c.bound[name]
		fmt.Fprintf(os.Stderr, "ident-enter entry: bound=%v fr=%v lenient=%v\n", inBound, c.fr != nil, c.lenient)
	}
	if v, ok := c.bound[name]; ok {
		return v
	}
	switch name {
	case "true":
		return TV{V: True, Typ: types.Typ[types.Bool]}
	case "false":
		return TV{V: False, Typ: types.Typ[types.Bool]}
	case "nil":
		return TV{V: IntLit(0), Typ: types.Typ[types.UntypedNil]}
	case "result":
		if len(c.results) == 0 {
			c.fail("result used but function has no result / not in a post-state")
		}
		return c.results[0]
	case "value":
		if c.storeVal != nil {
			return *c.storeVal
		}
	}
	if strings.HasPrefix(name, "result") {
		var k int
		if _, err := fmt.Sscanf(name, "result%d", &k); err == nil && k < len(c.results) {
			return c.results[k]
		}
	}
	if k, ok := c.resNames[name]; ok && k < len(c.results) {
		return c.results[k]
	}
	// lets of the contract
	if c.fc != nil && c.letDepth < 8 {
		for _, l := range c.fc.Lets {
			if l.Name == name {
				n := *c
				n.letDepth++
				return n.expr(l.Expr.Expr)
			}
		}
	}
	if v, ok := c.params[name]; ok {
		return v
	}
	if c.fr != nil {
		if v, ok := c.localAtPoint(name); ok {
			if os.Getenv("GOWP_DEBUG") == "names" {
				bi := -1
				if c.block != nil {
					bi = c.block.Index
				}
				fmt.Fprintf(os.Stderr, "ident %q at block %d of %s -> %v\n", name, bi, c.fr.fn.Name(), v.V)
			}
			return v
		}
	}
	if p := c.scopePkg(); p != nil {
		if obj := p.Scope().Lookup(name); obj != nil {
			return c.objectValue(obj)
		}
	}
	if obj := types.Universe.Lookup(name); obj != nil {
		if cst, ok := obj.(*types.Const); ok {
			return c.constValue(cst.Val(), cst.Type())
		}
	}
	if c.lenient && c.fr != nil && c.block != nil {
		if a, t, ok := c.lvalue(CIdent{Name: name}); ok {
			return TV{V: e.load(c.st, a, t), Typ: t}
		}
	}
	if c.lenient {
		// a name that is not in scope at this program point (e.g. at an early return): an
		// unconstrained value, so the obligation can only hold if it is vacuous there
		return TV{V: e.s.Const("outofscope:"+name, SInt)}
	}
	if os.Getenv("GOWP_DEBUG") != "" && c.block != nil {
		fmt.Fprintf(os.Stderr, "unresolved %q at block %d idx %d of %s\n", name, c.block.Index, c.idx, c.block.Parent())
	}
	c.fail("unresolved identifier %q in contract", name)
	return TV{}
}

// localAtPoint resolves a source-level variable name at the context's program point.
func (c *ExprCtx) localAtPoint(name string) (TV, bool) {
	// The nearest preceding mention of the name decides. That includes a field selector x.name: at `site store T.f`
	// the bare identifier f therefore denotes the field being stored to (its value before the store) and shadows a
	// variable of the same name - the C13/C14 contracts rely on it; entry(p) names a parameter unambiguously.
	return c.localAtPointF(name, true)
}

func (c *ExprCtx) localAtPointF(name string, fields bool) (TV, bool) {
	fr := c.fr
	e := c.e
	valOf := func(v ssa.Value) Val {
		if c.phiOverride != nil {
			if x, ok := c.phiOverride[v]; ok {
				return x
			}
		}
		return e.val(fr, v)
	}
	if c.block != nil {
		b := c.block
		i := c.idx
		for b != nil {
			if i > len(b.Instrs) {
				i = len(b.Instrs)
			}
			for k := i - 1; k >= 0; k-- {
				switch in := b.Instrs[k].(type) {
				case *ssa.DebugRef:
					if id := in.Expr; id != nil {
						if obj := in.Object(); obj != nil && obj.Name() == name {
							if vr, isVar := obj.(*types.Var); isVar && (fields || !vr.IsField()) {
								if os.Getenv("GOWP_DEBUG") == "names" {
									fmt.Fprintf(os.Stderr, "resolve %q: DebugRef in block %d -> %s (addr=%v)\n", name, b.Index, in.X.Name(), in.IsAddr)
								}
								if in.IsAddr {
									pv := e.asPtr(valOf(in.X), in.X.Type())
									return TV{V: e.load(c.st, pv.A, obj.Type()), Typ: obj.Type()}, true
								}
								return TV{V: valOf(in.X), Typ: in.X.Type()}, true
							}
						}
					}
				case *ssa.Phi:
					if in.Comment == name {
						return TV{V: valOf(in), Typ: in.Type()}, true
					}
				case *ssa.Alloc:
					if in.Comment == name {
						if os.Getenv("GOWP_DEBUG") == "names" {
							fmt.Fprintf(os.Stderr, "resolve %q: Alloc in block %d -> %s\n", name, b.Index, in.Name())
						}
						pv := e.asPtr(valOf(in), in.Type())
						et := in.Type().Underlying().(*types.Pointer).Elem()
						return TV{V: e.load(c.st, pv.A, et), Typ: et}, true
					}
				}
			}
			b = b.Idom()
			if b != nil {
				i = len(b.Instrs)
			}
		}
	}
	// parameters (entry values) and free variables
	for _, p := range fr.fn.Params {
		if p.Name() == name {
			return TV{V: e.val(fr, p), Typ: p.Type()}, true
		}
	}
	for i, fv := range fr.fn.FreeVars {
		if fv.Name() == name {
			var b Val
			if i < len(fr.bind) {
				b = fr.bind[i]
			} else {
				b = e.val(fr, fv)
			}
			pv := e.asPtr(b, fv.Type())
			et := fv.Type().Underlying().(*types.Pointer).Elem()
			return TV{V: e.load(c.st, pv.A, et), Typ: et}, true
		}
	}
	return TV{}, false
}

func (c *ExprCtx) deref(tv TV) TV {
	e := c.e
	if tv.Typ == nil {
		c.fail("dereference of untyped term")
	}
	pt, ok := under(tv.Typ).(*types.Pointer)
	if !ok {
		c.fail("dereference of non-pointer %s", tv.Typ)
	}
	pv := e.asPtr(tv.V, tv.Typ)
	return TV{V: e.load(c.st, pv.A, pt.Elem()), Typ: pt.Elem()}
}

func (c *ExprCtx) selectField(base TV, sel string) TV {
	e := c.e
	if base.Typ == nil {
		c.fail("field selection .%s on untyped term", sel)
	}
	t := base.Typ
	// implicit dereference
	if pt, ok := under(t).(*types.Pointer); ok {
		if _, isStruct := under(pt.Elem()).(*types.Struct); isStruct {
			pv := e.asPtr(base.V, t)
			st := under(pt.Elem()).(*types.Struct)
			path := fieldPath(pt.Elem(), sel)
			if path == nil {
				c.fail("no field %s in %s", sel, pt.Elem())
			}
			a := pv.A
			cur := pt.Elem()
			_ = st
			for k, idx := range path {
				su := under(cur).(*types.Struct)
				ft := su.Field(idx).Type()
				if k == len(path)-1 {
					return TV{V: e.load(c.st, e.fieldAddr(a, cur, idx), ft), Typ: ft}
				}
				// embedded: may be pointer or struct
				if ept, ok := under(ft).(*types.Pointer); ok {
					pvv := e.load(c.st, e.fieldAddr(a, cur, idx), ft)
					a = e.asPtr(pvv, ft).A
					cur = ept.Elem()
				} else {
					a = e.fieldAddr(a, cur, idx)
					cur = ft
				}
			}
		}
		c.fail("selection .%s through pointer to non-struct %s", sel, t)
	}
	if _, ok := under(t).(*types.Struct); ok {
		sv, ok := base.V.(*StructV)
		if !ok {
			c.fail("struct value expected for .%s", sel)
		}
		path := fieldPath(t, sel)
		if path == nil {
			c.fail("no field %s in %s", sel, t)
		}
		cur := t
		var v Val = sv
		for _, idx := range path {
			su := under(cur).(*types.Struct)
			ft := su.Field(idx).Type()
			if ept, ok := under(cur).(*types.Pointer); ok {
				_ = ept
			}
			svv, ok := v.(*StructV)
			if !ok {
				// embedded pointer inside a struct value
				return c.selectField(TV{V: v, Typ: cur}, sel)
			}
			v = svv.F[idx]
			cur = ft
		}
		return TV{V: v, Typ: cur}
	}
	c.fail("field selection .%s on %s", sel, t)
	return TV{}
}

// fieldPath finds the index path to a (possibly promoted) field.
func fieldPath(t types.Type, name string) []int {
	obj, index, _ := types.LookupFieldOrMethod(t, true, nil, name)
	if obj == nil {
		// unexported fields need the package: search manually
		return manualFieldPath(t, name, 0)
	}
	if _, ok := obj.(*types.Var); !ok {
		return nil
	}
	return index
}

func manualFieldPath(t types.Type, name string, depth int) []int {
	if depth > 4 {
		return nil
	}
	if p, ok := under(t).(*types.Pointer); ok {
		t = p.Elem()
	}
	st, ok := under(t).(*types.Struct)
	if !ok {
		return nil
	}
	for i := 0; i < st.NumFields(); i++ {
		if st.Field(i).Name() == name {
			return []int{i}
		}
	}
	for i := 0; i < st.NumFields(); i++ {
		if st.Field(i).Embedded() {
			if p := manualFieldPath(st.Field(i).Type(), name, depth+1); p != nil {
				return append([]int{i}, p...)
			}
		}
	}
	return nil
}

func (c *ExprCtx) indexExpr(base TV, ix CExpr) TV {
	e := c.e
	if base.Typ == nil {
		// mathematical array term
		if t, ok := base.V.(T); ok && isArrSort(t.Sort) {
			return TV{V: Select(t, c.intExpr(ix))}
		}
		if t, ok := base.V.(T); ok && c.lenient && strings.Contains(t.S, "outofscope:") {
			// a name that is not in scope at this program point: an unconstrained value
			return TV{V: e.s.Const("outofscope:elem", SInt)}
		}
		c.fail("index on untyped term")
	}
	switch u := under(base.Typ).(type) {
	case *types.Array:
		i := c.intExpr(ix)
		return TV{V: e.arrayElem(base.V, u, i), Typ: u.Elem()}
	case *types.Slice:
		sv := base.V.(*SliceV)
		i := Add(sv.Off, c.intExpr(ix))
		if sv.FromCell != nil {
			return TV{V: e.load(c.st, Addr{Kind: ACell, Cell: sv.FromCell, Path: sv.CellPath, I: &i}, u.Elem()), Typ: u.Elem()}
		}
		if _, isStruct := under(u.Elem()).(*types.Struct); isStruct {
			return TV{V: e.load(c.st, Addr{Kind: ARef, Base: e.elemAddr(sv.Base, i)}, u.Elem()), Typ: u.Elem()}
		}
		return TV{V: e.load(c.st, Addr{Kind: AElem, Base: sv.Base, I: &i}, u.Elem()), Typ: u.Elem()}
	case *types.Map:
		kt, ok := e.mapKeyTerm(c.expr(ix).V, u.Key())
		if !ok {
			c.fail("map with non-scalar key in contract")
		}
		ref := e.scalar(base.V)
		ls := leavesOf(u.Elem())
		ts := make([]T, len(ls))
		dk := "md:" + typeKey(base.Typ)
		dom := e.get(c.st, dk, arrSort(SInt, arrSort(SInt, SBool)))
		present := Select(Select(dom, ref), kt)
		zs := e.flatten(e.zero(u.Elem()), u.Elem())
		for i, lf := range ls {
			vk := "mv:" + typeKey(base.Typ) + lf.path
			arr := e.get(c.st, vk, arrSort(SInt, arrSort(SInt, lf.sort)))
			e.markRefKey(vk, lf)
			// Go semantics: a missing key yields the zero value
			ts[i] = Ite(present, Select(Select(arr, ref), kt), zs[i])
		}
		v, _ := e.unflatten(u.Elem(), ts)
		return TV{V: v, Typ: u.Elem()}
	case *types.Pointer:
		if at, ok := under(u.Elem()).(*types.Array); ok {
			d := c.deref(base)
			i := c.intExpr(ix)
			return TV{V: e.arrayElem(d.V, at, i), Typ: at.Elem()}
		}
	}
	c.fail("unsupported index expression on %s", base.Typ)
	return TV{}
}

func (c *ExprCtx) binary(x CBin) TV {
	e := c.e
	switch x.Op {
	case "&&":
		return TV{V: And(c.boolExpr(x.X), c.boolExpr(x.Y)), Typ: types.Typ[types.Bool]}
	case "||":
		return TV{V: Or(c.boolExpr(x.X), c.boolExpr(x.Y)), Typ: types.Typ[types.Bool]}
	case "==>":
		return TV{V: Imp(c.boolExpr(x.X), c.boolExpr(x.Y)), Typ: types.Typ[types.Bool]}
	case "<==>":
		return TV{V: Eq(c.boolExpr(x.X), c.boolExpr(x.Y)), Typ: types.Typ[types.Bool]}
	case "==", "!=":
		a := c.expr(x.X)
		b := c.expr(x.Y)
		var eq T
		at, aT := a.V.(T)
		bt, bT := b.V.(T)
		switch {
		case aT && bT && at.Sort == bt.Sort:
			eq = Eq(at, bt)
		case a.Typ != nil && b.Typ != nil && ifaceVsConcrete(a, b) != nil:
			eq = ifaceVsConcrete(a, b)(e)
		case a.Typ != nil && b.Typ != nil:
			ta := a.Typ
			if bb, ok := under(ta).(*types.Basic); ok && bb.Kind() == types.UntypedNil {
				ta = b.Typ
				a, b = b, a
			}
			eq = e.eqValLoose(a.V, b.V, ta, b.Typ)
		default:
			// one side typed, the other a mathematical term
			if aT && !bT {
				eq = Eq(at, e.scalar(b.V))
			} else if bT && !aT {
				eq = Eq(e.scalar(a.V), bt)
			} else {
				c.fail("cannot compare %s", cexprString(x))
			}
		}
		if x.Op == "!=" {
			eq = Not(eq)
		}
		return TV{V: eq, Typ: types.Typ[types.Bool]}
	}
	a := c.intExpr(x.X)
	b := c.intExpr(x.Y)
	switch x.Op {
	case "<":
		return TV{V: Lt(a, b), Typ: types.Typ[types.Bool]}
	case "<=":
		return TV{V: Le(a, b), Typ: types.Typ[types.Bool]}
	case ">":
		return TV{V: Gt(a, b), Typ: types.Typ[types.Bool]}
	case ">=":
		return TV{V: Ge(a, b), Typ: types.Typ[types.Bool]}
	case "+":
		return TV{V: Add(a, b)}
	case "-":
		return TV{V: Sub(a, b)}
	case "*":
		return TV{V: Mul(a, b)}
	case "/":
		return TV{V: TDiv(a, b)}
	case "%":
		return TV{V: TMod(a, b)}
	case "<<":
		if k, ok := litValue(b); ok && k.IsInt64() && k.Int64() < 512 {
			if av, ok := litValue(a); ok {
				return TV{V: IntBig(new(big.Int).Lsh(av, uint(k.Int64())))}
			}
			return TV{V: Mul(a, IntBig(pow2(uint(k.Int64()))))}
		}
		return TV{V: Mul(a, e.pow2Fun(b))}
	case ">>":
		if k, ok := litValue(b); ok && k.IsInt64() && k.Int64() < 512 {
			return TV{V: App(SInt, "div", a, IntBig(pow2(uint(k.Int64()))))}
		}
		return TV{V: App(SInt, "div", a, e.pow2Fun(b))}
	case "&":
		if m, ok := litValue(b); ok && contiguousMask(m) != nil {
			return TV{V: andContiguous(a, contiguousMask(m))}
		}
		if m, ok := litValue(a); ok && contiguousMask(m) != nil {
			return TV{V: andContiguous(b, contiguousMask(m))}
		}
		if m, ok := litValue(b); ok && fewBits(m) {
			return TV{V: andWithBits(a, m)}
		}
	}
	c.fail("unsupported binary operator %s in contract", x.Op)
	return TV{}
}

// pow2Term: 2^k for symbolic k in [0,64] as an ite chain.
func (c *ExprCtx) pow2Term(k T) T {
	t := IntBig(pow2(64))
	for i := 63; i >= 0; i-- {
		t = Ite(Eq(k, IntLit(int64(i))), IntBig(pow2(uint(i))), t)
	}
	return t
}

func (c *ExprCtx) call(x CCall) TV {
	e := c.e
	if id, ok := x.Fun.(CIdent); ok {
		switch id.Name {
		case "old":
			return c.inOld().expr(x.Args[0])
		case "prev":
			// prev(x) in a loop step clause: the value at the start of the iteration
			sl := c.stepLoop
			if sl == nil {
				// in a site clause inside a loop body: the value at the start of the current
				// iteration of the innermost enclosing loop
				sl = c.innermostLoop()
			}
			if sl == nil || sl.headState == nil {
				c.fail("prev() is only meaningful in a loop step clause or at a site inside a loop (loop found: %v, block set: %v, loops: %d, %s)", sl != nil, c.block != nil, len(c.fr.loops), c.loopDebug())
			}
			n := *c
			n.phiOverride = nil
			n.block = sl.head
			n.idx = len(sl.phis)
			n.st = sl.headState
			return n.expr(x.Args[0])
		case "prevheap":
			// prevheap(x) in a loop step clause: x evaluated in the memory state at the start of
			// the iteration, with the local variables of the current point (e.g. the entry a map
			// had for THIS iteration's key before the iteration ran)
			if c.stepLoop == nil {
				c.fail("prevheap() is only meaningful in a loop step clause")
			}
			n := *c
			mixed := c.stepLoop.headState.clone()
			for k, v := range c.st.m {
				if strings.HasPrefix(k, "c:") {
					mixed.m[k] = v
				}
			}
			n.st = mixed
			return n.expr(x.Args[0])
		case "implies":
			return TV{V: Imp(c.boolExpr(x.Args[0]), c.boolExpr(x.Args[1])), Typ: types.Typ[types.Bool]}
		case "iff":
			return TV{V: Eq(c.boolExpr(x.Args[0]), c.boolExpr(x.Args[1])), Typ: types.Typ[types.Bool]}
		case "ite":
			cnd := c.boolExpr(x.Args[0])
			a := c.expr(x.Args[1])
			b := c.expr(x.Args[2])
			at, aok := a.V.(T)
			bt, bok := b.V.(T)
			if aok && bok {
				return TV{V: Ite(cnd, at, bt), Typ: a.Typ}
			}
			if a.Typ != nil {
				return TV{V: e.iteVal(cnd, a.V, b.V, a.Typ), Typ: a.Typ}
			}
			c.fail("ite over composite untyped values")
		case "tdiv":
			return TV{V: TDiv(c.intExpr(x.Args[0]), c.intExpr(x.Args[1]))}
		case "tmod":
			return TV{V: TMod(c.intExpr(x.Args[0]), c.intExpr(x.Args[1]))}
		case "fdiv":
			return TV{V: App(SInt, "div", c.intExpr(x.Args[0]), c.intExpr(x.Args[1]))}
		case "min":
			a, b := c.intExpr(x.Args[0]), c.intExpr(x.Args[1])
			return TV{V: Ite(Le(a, b), a, b)}
		case "max":
			a, b := c.intExpr(x.Args[0]), c.intExpr(x.Args[1])
			return TV{V: Ite(Ge(a, b), a, b)}
		case "abs":
			a := c.intExpr(x.Args[0])
			return TV{V: Ite(Ge(a, IntLit(0)), a, Sub(IntLit(0), a))}
		case "len":
			return c.lenExpr(c.expr(x.Args[0]))
		case "forallq", "existsq":
			// forallq(i, lo, hi, body): the same meaning as forall, encoded as a first-order
			// quantifier (instantiated by the solver's E-matching). Meant for assumed facts
			// (preconditions about every element) that are used pointwise.
			if len(x.Args) != 4 {
				c.fail("%s(i, lo, hi, body) expected", id.Name)
			}
			v, ok := x.Args[0].(CIdent)
			if !ok {
				c.fail("bound variable expected")
			}
			bv := T{"|bv!" + v.Name + "|", SInt}
			lo, hi := c.intExpr(x.Args[1]), c.intExpr(x.Args[2])
			inner := c.withBound(v.Name, TV{V: bv})
			body := inner.boolExpr(x.Args[3])
			rng := And(Le(lo, bv), Lt(bv, hi))
			if id.Name == "forallq" {
				return TV{V: T{"(forall ((" + bv.S + " Int)) " + Imp(rng, body).S + ")", SBool}, Typ: types.Typ[types.Bool]}
			}
			return TV{V: T{"(exists ((" + bv.S + " Int)) " + And(rng, body).S + ")", SBool}, Typ: types.Typ[types.Bool]}
		case "forall", "exists":
			// forall(i, lo, hi, body): lo <= i < hi
			if len(x.Args) != 4 {
				c.fail("%s(i, lo, hi, body) expected", id.Name)
			}
			v, ok := x.Args[0].(CIdent)
			if !ok {
				c.fail("bound variable expected")
			}
			bv := T{"|bv!" + v.Name + "|", SInt}
			lo, hi := c.intExpr(x.Args[1]), c.intExpr(x.Args[2])
			inner := c.withBound(v.Name, TV{V: bv})
			body := inner.boolExpr(x.Args[3])
			return TV{V: e.rangeQuant(id.Name == "forall", bv, lo, hi, body), Typ: types.Typ[types.Bool]}
		case "ret":
			return c.retOf(x.Args)
		case "retn":
			// retn(callee, i[, k]): i-th component of the k-th call's result tuple
			if len(x.Args) < 2 {
				c.fail("retn(callee, i[, k])")
			}
			iv, ok := litValue(c.intExpr(x.Args[1]))
			if !ok {
				c.fail("retn: constant component index expected")
			}
			rest := []CExpr{x.Args[0]}
			if len(x.Args) > 2 {
				rest = append(rest, x.Args[2])
			}
			tv := c.retOf(rest)
			tup, ok := tv.V.(*TupleV)
			if !ok {
				if e.pass == 1 {
					return tv
				}
				c.fail("retn: %s does not return a tuple", cexprString(x.Args[0]))
			}
			tt := tv.Typ.(*types.Tuple)
			i := int(iv.Int64())
			if i >= len(tup.E) {
				c.fail("retn: component %d out of range", i)
			}
			return TV{V: tup.E[i], Typ: tt.At(i).Type()}
		case "loopvar":
			// loopvar(k): the k-th source-level variable carried around the innermost enclosing
			// loop (header phi order = declaration order); independent of the variable's name
			k, ok := constIntOf(x.Args[0])
			if !ok || c.fr == nil || c.block == nil {
				c.fail("loopvar(k) needs a constant index and a loop context")
			}
			for b := c.block; b != nil; b = b.Idom() {
				var phis []*ssa.Phi
				for _, in := range b.Instrs {
					if ph, ok := in.(*ssa.Phi); ok && ph.Comment != "" {
						phis = append(phis, ph)
					}
				}
				if len(phis) == 0 {
					continue
				}
				if k >= len(phis) {
					c.fail("loopvar(%d): loop has %d variables", k, len(phis))
				}
				ph := phis[k]
				if c.phiOverride != nil {
					if v, ok := c.phiOverride[ph]; ok {
						return TV{V: v, Typ: ph.Type()}
					}
				}
				return TV{V: e.val(c.fr, ph), Typ: ph.Type()}
			}
			c.fail("loopvar: no enclosing loop")
		case "entry":
			// entry(param): the value the parameter had on entry
			id, ok := x.Args[0].(CIdent)
			if !ok || c.fr == nil {
				c.fail("entry(paramName)")
			}
			for _, p := range e.top.fn.Params {
				if p.Name() == id.Name {
					return TV{V: e.val(e.top, p), Typ: p.Type()}
				}
			}
			c.fail("entry(%s): no such parameter", id.Name)
		case "arg":
			return c.argOf(x.Args)
		case "isnil":
			tv := c.expr(x.Args[0])
			return TV{V: e.eqValLoose(tv.V, IntLit(0), tv.Typ, types.Typ[types.UntypedNil]), Typ: types.Typ[types.Bool]}
		case "int", "int8", "int16", "int32", "int64", "uint", "uint8", "uint16", "uint32", "uint64", "byte", "uintptr":
			// value-lifting conversion: mathematical identity
			return TV{V: c.intExpr(x.Args[0])}
		case "wrap":
			// wrap(x, bits): two's complement unsigned wrap
			k, ok := litValue(c.intExpr(x.Args[1]))
			if !ok {
				c.fail("wrap needs constant width")
			}
			return TV{V: App(SInt, "mod", c.intExpr(x.Args[0]), IntBig(pow2(uint(k.Int64()))))}
		case "swrap":
			// swrap(x, bits): two's complement signed wrap (Go's intN arithmetic)
			k, ok := litValue(c.intExpr(x.Args[1]))
			if !ok {
				c.fail("swrap needs constant width")
			}
			m := IntBig(pow2(uint(k.Int64())))
			h := IntBig(pow2(uint(k.Int64() - 1)))
			u := App(SInt, "mod", Add(c.intExpr(x.Args[0]), h), m)
			return TV{V: Sub(u, h)}
		case "b2i":
			return TV{V: Ite(c.boolExpr(x.Args[0]), IntLit(1), IntLit(0))}
		case "addr":
			// addr(lvalue): the address of a field / element / dereferenced object
			a, t, ok := c.lvalue(x.Args[0])
			if !ok {
				c.fail("addr(%s): not an addressable expression", cexprString(x.Args[0]))
			}
			return TV{V: &PtrV{A: a, Elem: t}, Typ: types.NewPointer(t)}
		case "sliceof":
			// sliceof(lvalue of array type): the slice x[:] over an array stored in the heap
			a, t, ok := c.lvalue(x.Args[0])
			if !ok {
				c.fail("sliceof(%s): not an addressable expression", cexprString(x.Args[0]))
			}
			at, isArr := under(t).(*types.Array)
			if !isArr {
				c.fail("sliceof: array expected")
			}
			n := IntLit(at.Len())
			return TV{V: &SliceV{Base: e.arrView(a), Off: IntLit(0), Len: n, Cap: n, Elem: at.Elem()}, Typ: types.NewSlice(at.Elem())}
		case "band64", "bor64", "bxor64", "bandnot64", "band32", "bor32", "bxor32", "band8", "bor8", "bxor8", "band16", "bor16", "bxor16":
			// Go's bit operators on two non-constant operands: the same uninterpreted symbols the
			// code encoding uses; bv lemmas give them meaning
			op := strings.TrimRight(id.Name[1:], "0123456789")
			w := id.Name[1+len(op):]
			f := e.s.DeclareFun("bits:"+op+":uint"+w, []string{SInt, SInt}, SInt)
			if k := "bits-ax:" + f; !e.s.declSet[k] {
				// elementary bounds of the unsigned operators (true of the real operators; the same
				// facts the code encoding assumes at each use)
				e.s.declSet[k] = true
				var bnd string
				switch op {
				case "and":
					bnd = fmt.Sprintf("(and (<= 0 (%s a b)) (<= (%s a b) a) (<= (%s a b) b))", f, f, f)
				case "or":
					bnd = fmt.Sprintf("(and (>= (%s a b) a) (>= (%s a b) b) (<= (%s a b) (+ a b)))", f, f, f)
				case "xor":
					bnd = fmt.Sprintf("(and (<= 0 (%s a b)) (<= (%s a b) (+ a b)))", f, f)
				case "andnot":
					bnd = fmt.Sprintf("(and (<= 0 (%s a b)) (<= (%s a b) a))", f, f)
				}
				if bnd != "" {
					e.s.decls = append(e.s.decls, fmt.Sprintf("(assert (forall ((a Int) (b Int)) (! (=> (and (>= a 0) (>= b 0)) %s) :pattern ((%s a b)))))", bnd, f))
				}
			}
			return TV{V: App(SInt, f, c.intExpr(x.Args[0]), c.intExpr(x.Args[1]))}
		case "subslice":
			// subslice(s, lo, hi): the Go expression s[lo:hi] (same storage)
			tv := c.expr(x.Args[0])
			sv, ok := tv.V.(*SliceV)
			if !ok {
				c.fail("subslice: slice expected")
			}
			lo, hi := c.intExpr(x.Args[1]), c.intExpr(x.Args[2])
			return TV{V: &SliceV{Base: sv.Base, Off: Add(sv.Off, lo), Len: Sub(hi, lo), Cap: Sub(sv.Cap, lo), Elem: sv.Elem, FromCell: sv.FromCell, CellPath: sv.CellPath}, Typ: tv.Typ}
		case "f64":
			return TV{V: e.floatOp("i2f", SF, c.intExpr(x.Args[0]))}
		case "fquo":
			return TV{V: e.floatOp("fdiv", SF, c.floatExpr(x.Args[0]), c.floatExpr(x.Args[1]))}
		case "fmul":
			return TV{V: e.floatOp("fmul", SF, c.floatExpr(x.Args[0]), c.floatExpr(x.Args[1]))}
		case "flit":
			v, ok := litValue(c.intExpr(x.Args[0]))
			if !ok {
				c.fail("flit(constant)")
			}
			e.declFloat()
			name := e.s.DeclareFun(fmt.Sprintf("fconst:%v", float64(v.Int64())), nil, SF)
			return TV{V: T{name, SF}}
		case "has":
			// has(m, k): the map m has an entry for key k
			base := c.expr(x.Args[0])
			mt, ok := under(base.Typ).(*types.Map)
			if !ok {
				c.fail("has(m, k): m is not a map")
			}
			kt, ok := e.mapKeyTerm(c.expr(x.Args[1]).V, mt.Key())
			if !ok {
				c.fail("map with non-scalar key in contract")
			}
			ref := e.scalar(base.V)
			dom := e.get(c.st, "md:"+typeKey(base.Typ), arrSort(SInt, arrSort(SInt, SBool)))
			return TV{V: Select(Select(dom, ref), kt), Typ: types.Typ[types.Bool]}
		case "feq":
			// Go's == on floats (IEEE equality; an uninterpreted relation like the other float ops)
			return TV{V: e.floatOp("feq", SBool, c.floatExpr(x.Args[0]), c.floatExpr(x.Args[1])), Typ: types.Typ[types.Bool]}
		case "fle":
			return TV{V: e.floatOp("fle", SBool, c.floatExpr(x.Args[0]), c.floatExpr(x.Args[1])), Typ: types.Typ[types.Bool]}
		case "flt":
			return TV{V: e.floatOp("flt", SBool, c.floatExpr(x.Args[0]), c.floatExpr(x.Args[1])), Typ: types.Typ[types.Bool]}
		case "called":
			// called(name): a call to name has been executed on this path before this point
			n, ok := x.Args[0].(CIdent)
			if !ok {
				c.fail("called(name)")
			}
			key := "ghost:called:" + n.Name
			if len(x.Args) == 2 {
				k, ok := litValue(c.intExpr(x.Args[1]))
				if !ok {
					c.fail("called(name, k) needs a constant ordinal")
				}
				key = fmt.Sprintf("ghost:called:%s#%d", n.Name, k.Int64())
			}
			if _, has := e.keySorts[key]; !has {
				c.fail("called(%s): the contract does not track this callee (internal error)", n.Name)
			}
			return TV{V: e.get(c.st, key, SBool), Typ: types.Typ[types.Bool]}
		case "any":
			// any(name): one arbitrary integer, the same in every clause of the function's contract
			// (a universally quantified ghost constant: what is proved holds for each of its values)
			n, ok := x.Args[0].(CIdent)
			if !ok {
				c.fail("any(name)")
			}
			return TV{V: T{e.s.DeclareFun("any:"+n.Name, nil, SInt), SInt}}
		case "iterfresh":
			// iterfresh(v): the storage of slice / pointer v was allocated by an allocation that sits
			// inside the innermost loop enclosing this point, i.e. during the current iteration (each
			// iteration therefore has its own). Decided syntactically on the allocation constant: a
			// value that is not literally such an allocation makes the clause false.
			tv := c.expr(x.Args[0])
			var base T
			switch v := tv.V.(type) {
			case *SliceV:
				base = v.Base
				if v.FromCell != nil && v.FromCell.Alloc != nil {
					// a slice of a local array that lives in a cell: the cell's Alloc is the allocation
					if li := c.innermostLoop(); li != nil && li.body[v.FromCell.Alloc.Block()] {
						return TV{V: True, Typ: types.Typ[types.Bool]}
					}
					return TV{V: False, Typ: types.Typ[types.Bool]}
				}
			case *PtrV:
				base = v.A.Base
			default:
				c.fail("iterfresh: slice or pointer expected")
			}
			li := c.innermostLoop()
			if li == nil {
				c.fail("iterfresh() is only meaningful at a site inside a loop")
			}
			bs := base.S
			if strings.HasPrefix(bs, "(arrview ") && strings.HasSuffix(bs, ")") {
				// the slice view of an array object: the object is what was allocated
				bs = strings.TrimSuffix(strings.TrimPrefix(bs, "(arrview "), ")")
			}
			ap, ok := e.allocAt[bs]
			if ok && ap.fr == c.fr && li.body[ap.b] {
				return TV{V: True, Typ: types.Typ[types.Bool]}
			}
			return TV{V: False, Typ: types.Typ[types.Bool]}
		case "callfresh":
			// callfresh(v): the storage of slice / pointer v comes from an allocation executed by the function
			// under contract during this call (make / new / composite literal in its own body): it cannot alias
			// the receiver's state or anything handed out by an earlier call. Decided on the allocation constant.
			tv := c.expr(x.Args[0])
			var base T
			switch v := tv.V.(type) {
			case *SliceV:
				base = v.Base
			case *PtrV:
				base = v.A.Base
			default:
				c.fail("callfresh: slice or pointer expected")
			}
			bs := base.S
			if strings.HasPrefix(bs, "(arrview ") && strings.HasSuffix(bs, ")") {
				bs = strings.TrimSuffix(strings.TrimPrefix(bs, "(arrview "), ")")
			}
			if ap, ok := e.allocAt[bs]; ok && ap.fr == c.fr {
				return TV{V: True, Typ: types.Typ[types.Bool]}
			}
			return TV{V: False, Typ: types.Typ[types.Bool]}
		case "ghost":
			n, ok := x.Args[0].(CIdent)
			if !ok {
				c.fail("ghost(name)")
			}
			return TV{V: e.get(c.st, "ghost:"+n.Name, SBool), Typ: types.Typ[types.Bool]}
		case "boxof":
			// boxof(x): the data word the interface value interface{}(x) carries (an integer or bool: the
			// value; a pointer: the pointer; a slice: a word determined by its storage, offset and length)
			tv := c.expr(x.Args[0])
			switch vv := tv.V.(type) {
			case T:
				if vv.Sort == SBool {
					return TV{V: Ite(vv, IntLit(1), IntLit(0))}
				}
				return TV{V: vv}
			case *PtrV:
				return TV{V: e.ptrTerm(vv)}
			case *SliceV:
				return TV{V: e.boxSliceWord(vv)}
			}
			c.fail("boxof: value cannot be boxed in a contract (%T)", tv.V)
		case "dyndata":
			// dyndata(x): the data word of an interface value (for a boxed pointer: the pointer)
			tv := c.expr(x.Args[0])
			iv, ok := tv.V.(*IfaceV)
			if !ok {
				c.fail("dyndata on non-interface")
			}
			return TV{V: iv.Data}
		case "dynptr":
			// dynptr(x, *pkg.Type): the pointer boxed in interface value x, viewed as *pkg.Type
			// (meaningful where typeis(x, *pkg.Type) holds)
			tv := c.expr(x.Args[0])
			iv, ok := tv.V.(*IfaceV)
			if !ok {
				c.fail("dynptr on non-interface")
			}
			tt := c.typeExpr(x.Args[1])
			pt, ok := under(tt).(*types.Pointer)
			if !ok {
				c.fail("dynptr needs a pointer type")
			}
			return TV{V: &PtrV{A: Addr{Kind: ARef, Base: iv.Data}, Elem: pt.Elem()}, Typ: tt}
		case "typeis":
			// typeis(x, pkg.Type): dynamic type test on an interface value
			tv := c.expr(x.Args[0])
			iv, ok := tv.V.(*IfaceV)
			if !ok {
				c.fail("typeis on non-interface")
			}
			tt := c.typeExpr(x.Args[1])
			return TV{V: Eq(iv.Tag, e.typeTag(tt)), Typ: types.Typ[types.Bool]}
		}
		// spec function?
		if sf := e.eng.specFunc(c.scopePkgPath(), id.Name); sf != nil {
			return c.specCall(sf, x.Args)
		}
		// conversion to a named type of the package: identity
		if p := c.scopePkg(); p != nil {
			if obj := p.Scope().Lookup(id.Name); obj != nil {
				if _, isType := obj.(*types.TypeName); isType && len(x.Args) == 1 {
					return TV{V: c.expr(x.Args[0]).V, Typ: obj.Type()}
				}
			}
		}
		c.fail("unknown function %s in contract", id.Name)
	}
	if sel, ok := x.Fun.(CSel); ok {
		// pkg.Type(x) conversion or pkg.spec function
		if id, ok := sel.X.(CIdent); ok {
			if p := c.importedPkg(id.Name); p != nil && !c.isValueName(id.Name) {
				if obj := p.Scope().Lookup(sel.Sel); obj != nil {
					if _, isType := obj.(*types.TypeName); isType && len(x.Args) == 1 {
						return TV{V: c.expr(x.Args[0]).V, Typ: obj.Type()}
					}
				}
				if sf := e.eng.specFunc(p.Path(), sel.Sel); sf != nil {
					return c.specCall(sf, x.Args)
				}
			}
		}
		// method call on a value: inline a pure method
		recv := c.expr(sel.X)
		return c.methodCall(recv, sel.Sel, x.Args)
	}
	c.fail("unsupported call %s", cexprString(x))
	return TV{}
}

func (c *ExprCtx) scopePkgPath() string {
	if p := c.scopePkg(); p != nil {
		return p.Path()
	}
	return ""
}

func (c *ExprCtx) typeExpr(x CExpr) types.Type {
	switch t := x.(type) {
	case CUn:
		if t.Op == "*" {
			return types.NewPointer(c.typeExpr(t.X))
		}
	case CIdent:
		if p := c.scopePkg(); p != nil {
			if obj := p.Scope().Lookup(t.Name); obj != nil {
				if tn, ok := obj.(*types.TypeName); ok {
					return tn.Type()
				}
			}
		}
		if obj := types.Universe.Lookup(t.Name); obj != nil {
			if tn, ok := obj.(*types.TypeName); ok {
				return tn.Type()
			}
		}
	case CSel:
		if id, ok := t.X.(CIdent); ok {
			if p := c.importedPkg(id.Name); p != nil {
				if obj := p.Scope().Lookup(t.Sel); obj != nil {
					if tn, ok := obj.(*types.TypeName); ok {
						return tn.Type()
					}
				}
			}
		}
	}
	c.fail("type expression expected: %s", cexprString(x))
	return nil
}

func (c *ExprCtx) lenExpr(tv TV) TV {
	e := c.e
	if tv.Typ == nil {
		c.fail("len of untyped term")
	}
	switch u := under(tv.Typ).(type) {
	case *types.Slice:
		return TV{V: tv.V.(*SliceV).Len}
	case *types.Array:
		return TV{V: IntLit(u.Len())}
	case *types.Basic:
		f := e.s.DeclareFun("strlen", []string{SInt}, SInt)
		return TV{V: App(SInt, f, tv.V.(T))}
	case *types.Map:
		lk := "ml:" + typeKey(tv.Typ)
		arr := e.get(c.st, lk, arrSort(SInt, SInt))
		return TV{V: Select(arr, e.scalar(tv.V))}
	case *types.Pointer:
		if at, ok := under(u.Elem()).(*types.Array); ok {
			return TV{V: IntLit(at.Len())}
		}
	}
	c.fail("len of %s", tv.Typ)
	return TV{}
}

func (c *ExprCtx) specCall(sf *SpecFunc, args []CExpr) TV {
	e := c.e
	if len(args) != len(sf.Params) {
		c.fail("spec function %s: %d arguments expected", sf.Name, len(sf.Params))
	}
	name := e.declareSpec(sf)
	var ts []T
	for i, a := range args {
		switch sf.Params[i].Typ {
		case "bool":
			ts = append(ts, c.boolExpr(a))
		case "float":
			ts = append(ts, c.floatExpr(a))
		default:
			tv := c.expr(a)
			t, ok := tv.V.(T)
			if !ok {
				t = e.scalar(tv.V)
			}
			ts = append(ts, t)
		}
	}
	ret := specSort(sf.Ret)
	return TV{V: App(ret, name, ts...)}
}

func specSort(t string) string {
	switch t {
	case "bool":
		return SBool
	case "int", "":
		return SInt
	case "bytes", "arr":
		return arrSort(SInt, SInt)
	case "float":
		return SF
	}
	return SInt // int and the fixed-width Go integer types of bv lemmas
}

// declareSpec emits the SMT definition of a spec function (and its callees) once.
func (e *Enc) declareSpec(sf *SpecFunc) string {
	name := quoteSym("spec:" + lastPathElem(sf.Pkg) + "." + sf.Name)
	key := "spec:" + sf.Pkg + ":" + sf.Name
	if e.s.declSet[key] {
		return name
	}
	e.s.declSet[key] = true
	var ps []string
	var sorts []string
	bound := map[string]TV{}
	for _, p := range sf.Params {
		pn := quoteSym("sp!" + p.Name)
		ps = append(ps, "("+pn+" "+specSort(p.Typ)+")")
		sorts = append(sorts, specSort(p.Typ))
		var typ types.Type
		if p.Typ == "bool" {
			typ = types.Typ[types.Bool]
		}
		bound[p.Name] = TV{V: T{pn, specSort(p.Typ)}, Typ: typ}
	}
	if sf.Uninter {
		e.s.decls = append(e.s.decls, fmt.Sprintf("(declare-fun %s (%s) %s)", name, strings.Join(sorts, " "), specSort(sf.Ret)))
		e.note("spec function " + sf.Name + " is uninterpreted")
		e.emitAxiomsFor(sf)
		return name
	}
	var pkg *types.Package
	if lp := e.eng.pkgByPath[sf.Pkg]; lp != nil {
		pkg = lp.Pkg.Types
	}
	ctx := &ExprCtx{e: e, st: e.entry, bound: bound, pkg: pkg}
	recursive := cexprMentions(sf.Body, sf.Name)
	var body T
	if specSort(sf.Ret) == SBool {
		body = ctx.boolExpr(sf.Body)
	} else {
		tv := ctx.expr(sf.Body)
		t, ok := tv.V.(T)
		if !ok {
			t = e.scalar(tv.V)
		}
		body = t
	}
	kw := "define-fun"
	if recursive {
		kw = "define-fun-rec"
	}
	e.s.decls = append(e.s.decls, fmt.Sprintf("(%s %s (%s) %s %s)", kw, name, strings.Join(ps, " "), specSort(sf.Ret), body.S))
	return name
}

func cexprMentions(x CExpr, name string) bool {
	switch x := x.(type) {
	case CIdent:
		return x.Name == name
	case CSel:
		return cexprMentions(x.X, name)
	case CCall:
		if cexprMentions(x.Fun, name) {
			return true
		}
		for _, a := range x.Args {
			if cexprMentions(a, name) {
				return true
			}
		}
	case CIndex:
		return cexprMentions(x.X, name) || cexprMentions(x.I, name)
	case CUn:
		return cexprMentions(x.X, name)
	case CBin:
		return cexprMentions(x.X, name) || cexprMentions(x.Y, name)
	}
	return false
}

// ret(callee) / ret(callee, k): the value returned by the k-th call to callee in the function.
func (c *ExprCtx) retOf(args []CExpr) TV {
	e := c.e
	if len(args) == 0 {
		c.fail("ret(callee[, k])")
	}
	name := cexprString(args[0])
	k := 0
	if len(args) > 1 {
		if v, ok := litValue(c.intExpr(args[1])); ok {
			k = int(v.Int64())
		}
	}
	tv, ok := e.retValue(lastName(name), k)
	if !ok {
		c.fail("ret(%s,%d): the function has no such call (calls are counted in source order)", name, k)
	}
	return tv
}

func lastName(s string) string {
	if i := strings.LastIndex(s, "."); i >= 0 {
		return s[i+1:]
	}
	return s
}

func (c *ExprCtx) argOf(args []CExpr) TV {
	if len(args) != 1 {
		c.fail("arg(name|index)")
	}
	if id, ok := args[0].(CIdent); ok {
		for i, n := range c.callArgNames {
			if n == id.Name && i < len(c.callArgs) {
				return c.callArgs[i]
			}
		}
		c.fail("arg(%s): no such parameter at this call site", id.Name)
	}
	if v, ok := litValue(c.intExpr(args[0])); ok && int(v.Int64()) < len(c.callArgs) {
		return c.callArgs[v.Int64()]
	}
	c.fail("arg: bad index")
	return TV{}
}

// methodCall evaluates a pure method (loop-free, store-free) on a value by inlining its SSA body.
func (c *ExprCtx) methodCall(recv TV, name string, args []CExpr) TV {
	e := c.e
	if recv.Typ == nil {
		c.fail("method call .%s on untyped term", name)
	}
	fn := e.eng.findMethod(recv.Typ, name)
	if fn == nil || len(fn.Blocks) == 0 {
		c.fail("method %s on %s not available for inlining in a contract", name, recv.Typ)
	}
	var avs []Val
	rv := recv.V
	// adjust receiver: method may want pointer or value
	sigRecv := fn.Signature.Recv().Type()
	if _, wantPtr := under(sigRecv).(*types.Pointer); wantPtr {
		if _, havePtr := under(recv.Typ).(*types.Pointer); !havePtr {
			c.fail("pointer-receiver method %s on a value in a contract", name)
		}
	} else if _, havePtr := under(recv.Typ).(*types.Pointer); havePtr {
		rv = c.deref(recv).V
	}
	avs = append(avs, rv)
	for _, a := range args {
		avs = append(avs, c.expr(a).V)
	}
	res, rt := e.pureInline(fn, avs, c.st)
	return TV{V: res, Typ: rt}
}

func lastPathElem(p string) string {
	if i := strings.LastIndex(p, "/"); i >= 0 {
		return p[i+1:]
	}
	return p
}

// lvalue computes the address denoted by x.f / a[i] / *p chains without loading whole structs.
func (c *ExprCtx) lvalue(x CExpr) (Addr, types.Type, bool) {
	e := c.e
	switch x := x.(type) {
	case CIdent:
		// a local variable (or parameter) that lives in memory because its address is taken
		if c.fr == nil || c.block == nil || c.st == e.entry {
			// requires/ensures/old(): parameter names denote entry values, not memory cells
			return Addr{}, nil, false
		}
		if _, shadow := c.bound[x.Name]; shadow {
			return Addr{}, nil, false
		}
		// the declaration in scope at the program point: walk the dominator chain backwards; a
		// register-held variable of that name (DebugRef that is not an address) shadows any
		// memory-resident variable of the same name declared elsewhere in the function
		b := c.block
		i := c.idx
		for b != nil {
			if i > len(b.Instrs) {
				i = len(b.Instrs)
			}
			for k := i - 1; k >= 0; k-- {
				switch in := b.Instrs[k].(type) {
				case *ssa.DebugRef:
					if obj := in.Object(); obj != nil && obj.Name() == x.Name {
						if _, isVar := obj.(*types.Var); isVar && in.IsAddr {
							if al, isAl := in.X.(*ssa.Alloc); isAl {
								if v, ok := c.fr.vals[al]; ok {
									pv := e.asPtr(v, al.Type())
									return pv.A, al.Type().Underlying().(*types.Pointer).Elem(), true
								}
							}
						}
						if _, isVar := obj.(*types.Var); isVar && !in.IsAddr {
							// a read of a memory-resident variable shows up as a load of its cell
							if ld, isLoad := in.X.(*ssa.UnOp); isLoad && ld.Op == token.MUL {
								if al, isAl := ld.X.(*ssa.Alloc); isAl && al.Comment == x.Name {
									if v, ok := c.fr.vals[al]; ok {
										pv := e.asPtr(v, al.Type())
										return pv.A, al.Type().Underlying().(*types.Pointer).Elem(), true
									}
								}
							}
							return Addr{}, nil, false
						}
					}
				case *ssa.Alloc:
					if in.Comment != x.Name {
						continue
					}
					v, ok := c.fr.vals[in]
					if !ok {
						continue
					}
					pv := e.asPtr(v, in.Type())
					return pv.A, in.Type().Underlying().(*types.Pointer).Elem(), true
				}
			}
			b = b.Idom()
			if b != nil {
				i = len(b.Instrs)
			}
		}
		if c.lenient {
			// at a return site a variable declared in one branch is out of lexical scope, but its
			// memory cell still holds the value that branch left in it; the assertion has to guard
			// the use by a condition that identifies the branch (on other paths the value is
			// arbitrary). Only done when the name is unique in the function.
			var found *ssa.Alloc
			n := 0
			for _, bb := range c.fr.fn.Blocks {
				for _, in := range bb.Instrs {
					if al, ok := in.(*ssa.Alloc); ok && al.Comment == x.Name {
						if _, has := c.fr.vals[al]; has {
							found = al
							n++
						}
					}
				}
			}
			if n == 1 {
				pv := e.asPtr(c.fr.vals[found], found.Type())
				return pv.A, found.Type().Underlying().(*types.Pointer).Elem(), true
			}
		}
		return Addr{}, nil, false
	case CSel:
		if id, ok := x.X.(CIdent); ok {
			if _, shadow := c.bound[id.Name]; !shadow && !c.isValueName(id.Name) && c.importedPkg(id.Name) != nil {
				return Addr{}, nil, false
			}
		}
		// base as an address of a struct
		var a Addr
		var st types.Type
		if ba, bt, ok := c.lvalue(x.X); ok {
			if pt, isPtr := under(bt).(*types.Pointer); isPtr {
				// stored pointer: load it, then address through it
				pv := e.asPtr(e.load(c.st, ba, bt), bt)
				a, st = pv.A, pt.Elem()
			} else {
				a, st = ba, bt
			}
		} else {
			var base TV
			ok2 := func() (ok bool) {
				defer func() {
					if r := recover(); r != nil {
						if _, isCP := r.(contractPanic); isCP {
							ok = false
							return
						}
						panic(r)
					}
				}()
				base = c.expr(x.X)
				return true
			}()
			if !ok2 || base.Typ == nil {
				return Addr{}, nil, false
			}
			pt, isPtr := under(base.Typ).(*types.Pointer)
			if !isPtr {
				return Addr{}, nil, false
			}
			a, st = e.asPtr(base.V, base.Typ).A, pt.Elem()
		}
		if _, isStruct := under(st).(*types.Struct); !isStruct {
			return Addr{}, nil, false
		}
		path := fieldPath(st, x.Sel)
		if path == nil {
			return Addr{}, nil, false
		}
		cur := st
		for k, idx := range path {
			su := under(cur).(*types.Struct)
			ft := su.Field(idx).Type()
			fa := e.fieldAddr(a, cur, idx)
			if k == len(path)-1 {
				return fa, ft, true
			}
			if ept, ok := under(ft).(*types.Pointer); ok {
				pv := e.asPtr(e.load(c.st, fa, ft), ft)
				a, cur = pv.A, ept.Elem()
			} else {
				a, cur = fa, ft
			}
		}
	case CIndex:
		var base TV
		if ba, bt, ok := c.lvalue(x.X); ok {
			if _, isSlice := under(bt).(*types.Slice); isSlice {
				base = TV{V: e.load(c.st, ba, bt), Typ: bt}
			} else if at, isArr := under(bt).(*types.Array); isArr {
				i := c.intExpr(x.I)
				if _, isStruct := under(at.Elem()).(*types.Struct); isStruct {
					sa, _ := e.structAddr(ba)
					return Addr{Kind: ARef, Base: e.elemAddr(sa, i)}, at.Elem(), true
				}
				ba.I = &i
				if ba.Kind == ARef {
					ba.S = bt
				}
				return ba, at.Elem(), true
			} else {
				return Addr{}, nil, false
			}
		} else {
			ok2 := func() (ok bool) {
				defer func() {
					if r := recover(); r != nil {
						if _, isCP := r.(contractPanic); isCP {
							ok = false
							return
						}
						panic(r)
					}
				}()
				base = c.expr(x.X)
				return true
			}()
			if !ok2 || base.Typ == nil {
				return Addr{}, nil, false
			}
		}
		sl, isSlice := under(base.Typ).(*types.Slice)
		if !isSlice {
			return Addr{}, nil, false
		}
		sv := base.V.(*SliceV)
		i := Add(sv.Off, c.intExpr(x.I))
		if sv.FromCell != nil {
			return Addr{Kind: ACell, Cell: sv.FromCell, Path: sv.CellPath, I: &i}, sl.Elem(), true
		}
		if _, isStruct := under(sl.Elem()).(*types.Struct); isStruct {
			return Addr{Kind: ARef, Base: e.elemAddr(sv.Base, i)}, sl.Elem(), true
		}
		return Addr{Kind: AElem, Base: sv.Base, I: &i}, sl.Elem(), true
	case CUn:
		if x.Op == "*" {
			tv := c.expr(x.X)
			if tv.Typ != nil {
				if pt, ok := under(tv.Typ).(*types.Pointer); ok {
					return e.asPtr(tv.V, tv.Typ).A, pt.Elem(), true
				}
			}
		}
	}
	return Addr{}, nil, false
}

var bvRe = regexp.MustCompile(`\|bv![A-Za-z0-9_]+\|`)

// rangeQuant encodes forall/exists over an integer range [lo, hi) as a recursive function of the
// upper bound (one unfolding per loop iteration suffices for invariant preservation; no
// quantifier instantiation heuristics are involved).
func (e *Enc) rangeQuant(isForall bool, bv, lo, hi, body T) T {
	if e.eng.quantMode == "quantifier" {
		rng := And(Le(lo, bv), Lt(bv, hi))
		if isForall {
			return T{"(forall ((" + bv.S + " Int)) " + Imp(rng, body).S + ")", SBool}
		}
		return T{"(exists ((" + bv.S + " Int)) " + And(rng, body).S + ")", SBool}
	}
	// other bound variables occurring free become parameters
	seen := map[string]bool{bv.S: true}
	var extra []string
	for _, m := range bvRe.FindAllString(lo.S+" "+body.S, -1) {
		if !seen[m] {
			seen[m] = true
			extra = append(extra, m)
		}
	}
	kind := "ex"
	if isForall {
		kind = "all"
	}
	key := "quant:" + kind + "|" + lo.S + "|" + body.S
	name, ok := e.quantFns[key]
	if !ok {
		name = quoteSym(fmt.Sprintf("%s!%d", kind, len(e.quantFns)))
		e.quantFns[key] = name
		h := "|qh|"
		step := strings.ReplaceAll(body.S, bv.S, "(- "+h+" 1)")
		params := "(" + h + " Int)"
		rec := "(" + name + " (- " + h + " 1)"
		for _, x := range extra {
			params += " (" + x + " Int)"
			rec += " " + x
		}
		rec += ")"
		var def string
		if isForall {
			def = fmt.Sprintf("(define-fun-rec %s (%s) Bool (ite (<= %s %s) true (and %s %s)))", name, params, h, lo.S, rec, step)
		} else {
			def = fmt.Sprintf("(define-fun-rec %s (%s) Bool (ite (<= %s %s) false (or %s %s)))", name, params, h, lo.S, rec, step)
		}
		e.s.decls = append(e.s.decls, def)
	}
	app := "(" + name + " " + hi.S
	for _, x := range extra {
		app += " " + x
	}
	app += ")"
	return T{app, SBool}
}

// emitAxioms: axioms of the package that mention the given spec function are assumed (quantified).
func (e *Enc) emitAxiomsFor(sf *SpecFunc) {
	for _, lm := range e.eng.lemmas {
		if !lm.Axiom || lm.Pkg != sf.Pkg || !cexprMentions(lm.Body.Expr, sf.Name) {
			continue
		}
		e.assumeLemma(lm)
	}
}

// assumeLemma adds "forall params. body" as a background fact.
func (e *Enc) assumeLemma(lm *Lemma) {
	key := "lemma-assumed:" + lm.Pkg + ":" + lm.Name
	if e.s.declSet[key] {
		return
	}
	e.s.declSet[key] = true
	var pkg *types.Package
	if lp := e.eng.pkgByPath[lm.Pkg]; lp != nil {
		pkg = lp.Pkg.Types
	}
	bound := map[string]TV{}
	var binders []string
	for _, p := range lm.Params {
		pn := "|bq!" + p.Name + "|"
		binders = append(binders, "("+pn+" "+specSort(p.Typ)+")")
		var typ types.Type
		if p.Typ == "bool" {
			typ = types.Typ[types.Bool]
		}
		bound[p.Name] = TV{V: T{pn, specSort(p.Typ)}, Typ: typ}
	}
	ctx := &ExprCtx{e: e, st: e.entry, old: e.entry, bound: bound, pkg: pkg}
	body := ctx.boolExpr(lm.Body.Expr)
	if lm.BV {
		body = Imp(bvParamRanges(lm, bound), body)
	}
	if len(binders) == 0 {
		e.s.decls = append(e.s.decls, "(assert "+body.S+")")
	} else {
		e.s.decls = append(e.s.decls, "(assert (forall ("+strings.Join(binders, " ")+") "+body.S+"))")
	}
	if lm.Axiom {
		e.note("axiom (assumed): " + lm.Name + ": " + lm.Body.Text)
	} else {
		e.note("lemma used as a background fact (proved separately as " + lastPathElem(lm.Pkg) + ".lemma/" + lm.Name + ")")
	}
}

// ifaceVsConcrete: comparison of an interface value with a value of a concrete pointer type
// (x == p holds iff x's dynamic type is p's type and the boxed pointer equals p).
func ifaceVsConcrete(a, b TV) func(e *Enc) T {
	ia, aIs := a.V.(*IfaceV)
	ib, bIs := b.V.(*IfaceV)
	if aIs == bIs {
		return nil
	}
	if bIs {
		ia, a, b = ib, b, a
	}
	_ = a
	if _, isPtr := under(b.Typ).(*types.Pointer); !isPtr {
		return nil
	}
	return func(e *Enc) T {
		return And(Eq(ia.Tag, e.typeTag(b.Typ)), Eq(ia.Data, e.scalar(b.V)))
	}
}

// bvParamRanges: the parameters of a bit-vector lemma range over their Go types.
func bvParamRanges(lm *Lemma, bound map[string]TV) T {
	var cs []T
	for _, p := range lm.Params {
		w, sg, ok := goIntWidth(p.Typ)
		if !ok {
			continue
		}
		t, isT := bound[p.Name].V.(T)
		if !isT {
			continue
		}
		if sg {
			cs = append(cs, And(Ge(t, IntBig(new(big.Int).Neg(pow2(uint(w-1))))), Lt(t, IntBig(pow2(uint(w-1))))))
		} else {
			cs = append(cs, And(Ge(t, IntLit(0)), Lt(t, IntBig(pow2(uint(w))))))
		}
	}
	return And(cs...)
}

func constIntOf(x CExpr) (int, bool) {
	if ci, ok := x.(CInt); ok && ci.V.IsInt64() {
		return int(ci.V.Int64()), true
	}
	return 0, false
}

// innermostLoop: the innermost loop of the current frame whose body contains the program point.
func (c *ExprCtx) innermostLoop() *loopInfo {
	if c.fr == nil || c.block == nil {
		return nil
	}
	var best *loopInfo
	for _, li := range c.fr.loops {
		if li.body[c.block] || li.head == c.block {
			if best == nil || len(li.body) < len(best.body) {
				best = li
			}
		}
	}
	if best != nil {
		return best
	}
	// a point on an exit path of a loop (e.g. a return statement inside the loop's source text is
	// not part of the natural loop): the most deeply nested loop whose head dominates the point;
	// prev(x) is then the value at the most recent visit of that head
	for _, li := range c.fr.loops {
		if li.head.Dominates(c.block) && li.headState != nil {
			if best == nil || best.head.Dominates(li.head) {
				best = li
			}
		}
	}
	return best
}

func (c *ExprCtx) loopDebug() string {
	out := ""
	for _, li := range c.fr.loops {
		out += fmt.Sprintf("[head b%d dominates b%d: %v, headState: %v, inBody: %v]", li.head.Index, c.block.Index, li.head.Dominates(c.block), li.headState != nil, li.body[c.block])
	}
	return out
}
