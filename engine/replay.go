package main

import (
	"encoding/json"
	"fmt"
	"go/types"
	"os"
	"strings"
)

// lemmaObligation: a closed formula over spec functions.
func (eng *Engine) lemmaObligation(lp *LoadedPkg, lm *Lemma) (o *Obligation, err error) {
	defer func() {
		if r := recover(); r != nil {
			err = fmt.Errorf("lemma %s: %v", lm.Name, r)
		}
	}()
	e := eng.newEnc(lp, nil, &FuncContract{Props: lm.Props}, 2, nil, map[string]bool{}, map[string]string{}, nil)
	for _, u := range lm.Uses {
		if !strings.Contains(u, "(") {
			e.useLemma(strings.TrimSpace(u), nil, nil)
		}
	}
	bound := map[string]TV{}
	for _, p := range lm.Params {
		c := e.s.Const("lp:"+p.Name, specSort(p.Typ))
		var typ types.Type
		if p.Typ == "bool" {
			typ = types.Typ[types.Bool]
		}
		bound[p.Name] = TV{V: c, Typ: typ}
	}
	ctx := &ExprCtx{e: e, st: e.entry, old: e.entry, bound: bound, pkg: lp.Pkg.Types}
	// instantiated lemmas: uses NAME(args) over this lemma's parameters
	for _, u := range lm.Uses {
		if strings.Contains(u, "(") {
			x, perr := parseCExpr(strings.TrimSpace(u))
			if perr != nil {
				panic(perr.Error())
			}
			call, ok := x.(CCall)
			if !ok {
				panic("uses: NAME(args) expected: " + u)
			}
			e.useLemma(cexprString(call.Fun), call.Args, ctx)
		}
	}
	g := ctx.boolExpr(lm.Body.Expr)
	name := lp.Pkg.Types.Name() + ".lemma/" + lm.Name
	ob := e.s.NewObligation(Obligation{Name: name, Kind: "lemma", Fn: "lemma " + lm.Name, Goal: g, Desc: lm.Body.Text, Props: lm.Props})
	return ob, nil
}

// tryReplay obtains a model for a failed obligation and, where the function is replayable, runs
// the real code on it.
func tryReplay(o *Obligation) (model map[string]string, confirmed bool, detail string) {
	q := o.Render(true)
	q = strings.Replace(q, "(check-sat)\n", "(check-sat)\n(get-model)\n", 1)
	r := RunSolvers(q, 20, false)
	model = map[string]string{}
	if r.Status != "sat" {
		return model, false, "no model: " + r.Status
	}
	model["raw"] = truncate(r.Output, 12000)
	ok, d := replayOnCode(o, r.Output)
	return model, ok, d
}

func dumpObligation(prop, name string) {
	os.Setenv("GOWP_DUMP", name)
	runCheck(prop, "quick", nil, false)
}

func replayFile(path string) int {
	data, err := os.ReadFile(path)
	if err != nil {
		fmt.Fprintln(os.Stderr, err)
		return 2
	}
	var info map[string]any
	if err := json.Unmarshal(data, &info); err != nil {
		fmt.Fprintln(os.Stderr, err)
		return 2
	}
	fmt.Printf("replay file %s\n obligation: %v\n clause: %v\n status: %v\n", path, info["obligation"], info["clause"], info["status"])
	if rp, ok := info["replay"]; ok {
		fmt.Printf(" replay: %v\n", rp)
	}
	prop, _ := info["property"].(string)
	if prop == "" {
		return 0
	}
	fmt.Printf("re-running property %s on the current tree:\n", prop)
	code, _ := runCheck(prop, "quick", nil, false)
	return code
}
