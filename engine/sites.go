package main

// Site obligations (K2 guards), postconditions at returns, top-level function encoding.

import (
	"go/token"
	"fmt"
	"go/types"
	"sort"
	"strings"

	"golang.org/x/tools/go/ssa"
)

func (e *Enc) siteCtx(fr *Frame) *ExprCtx {
	return &ExprCtx{e: e, fr: e.top, st: fr.curState, old: e.entry, block: fr.curB, idx: fr.curI, fc: e.fc}
}

// topPoint: sites are evaluated with names resolved in the top frame. When the site is met in
// the top frame itself the program point is exact.
func (e *Enc) sitePointCtx(fr *Frame) *ExprCtx {
	ctx := e.siteCtx(fr)
	if fr != e.top {
		// inside an inlined closure: resolve names at the point of the enclosing call in the top frame
		f := fr
		for f.parent != nil && f.parent != e.top {
			f = f.parent
		}
		ctx.block = e.top.curB
		ctx.idx = e.top.curI
	}
	return ctx
}

func targetMatchesName(target string, names []string) bool {
	last := lastName(target)
	for _, n := range names {
		if n == last {
			return true
		}
	}
	return false
}

// calleeNames lists the names a call site may be referred to by in a site clause.
func (e *Enc) calleeNames(cs *callSite) (simple []string, quals []string) {
	if cs.static != nil {
		fn := cs.static
		if o := fn.Origin(); o != nil {
			fn = o
		}
		n := strings.TrimSuffix(fn.Name(), "$bound")
		simple = append(simple, n)
		if r := fn.Signature.Recv(); r != nil {
			// methods are qualified by their receiver type
			t := r.Type()
			if p, ok := t.(*types.Pointer); ok {
				t = p.Elem()
			}
			if nt, ok := t.(*types.Named); ok {
				quals = append(quals, nt.Obj().Name())
			}
		} else if fn.Pkg != nil {
			quals = append(quals, fn.Pkg.Pkg.Name())
		} else if fn.Object() != nil && fn.Object().Pkg() != nil {
			quals = append(quals, fn.Object().Pkg().Name())
		}
	} else if cs.invoke {
		simple = append(simple, cs.common.Method.Name())
		if nt, ok := cs.common.Value.Type().(*types.Named); ok {
			quals = append(quals, nt.Obj().Name())
		}
	} else {
		simple = append(simple, cs.name)
	}
	return
}

func (e *Enc) siteMatchesCall(st *Site, cs *callSite) bool {
	if st.Kind != "call" {
		return false
	}
	simple, quals := e.calleeNames(cs)
	if !targetMatchesName(st.Target, simple) {
		return false
	}
	// qualifier check: if the qualifier names an imported package or a type, it must match
	if i := strings.LastIndex(st.Target, "."); i >= 0 {
		q := lastName(st.Target[:i])
		q = strings.TrimPrefix(q, "*")
		if e.isPkgOrTypeName(q) {
			for _, x := range quals {
				if x == q {
					return true
				}
			}
			return false
		}
	}
	return true
}

func (e *Enc) isPkgOrTypeName(q string) bool {
	p := e.fn.Pkg.Pkg
	for _, imp := range p.Imports() {
		if imp.Name() == q {
			return true
		}
	}
	if lp := e.eng.pkgByPath[p.Path()]; lp != nil {
		if _, ok := lp.importAliases[q]; ok {
			return true
		}
	}
	if obj := p.Scope().Lookup(q); obj != nil {
		if _, ok := obj.(*types.TypeName); ok {
			return true
		}
	}
	return false
}

func (e *Enc) siteLabel(st *Site) string {
	if st.Label != "" {
		return st.Label
	}
	if st.Nth >= 0 {
		return fmt.Sprintf("%s:%s#%d", st.Kind, st.Target, st.Nth)
	}
	return st.Kind + ":" + st.Target
}

func (e *Enc) markSiteHit(fr *Frame) {
	if e.fc != nil && e.fc.Covers && !e.fc.CoverNoSites {
		e.get(fr.curState, "ghost:sitehit", SBool)
		fr.curState.m["ghost:sitehit"] = True
	}
}

func (e *Enc) assertSite(fr *Frame, st *Site, ctx *ExprCtx) {
	if st.Nth >= 0 {
		if e.siteOrdinal(st, e.curSiteInstr) != st.Nth {
			return
		}
	}
	e.siteHits[st]++
	g := e.safeBool(ctx, st.Assert, "site "+e.siteLabel(st))
	if st.Assume {
		// domain restriction: paths continuing from here satisfy g
		e.note("DOMAIN ASSUMED at " + e.siteLabel(st) + " in " + shortFnName(fr.fn) + ": " + st.Assert.Text)
		fr.curReach = e.s.Define("reach:domain", And(fr.curReach, g))
		e.addCover("site:"+e.siteLabel(st), fr.curReach, "domain restriction is satisfiable at the site")
		return
	}
	e.addObligation("site", e.siteLabel(st), fr.curReach, g, st.Assert.Text)
	e.addCover("site:"+e.siteLabel(st), fr.curReach, "site is reachable")
	e.markSiteHit(fr)
}

func (e *Enc) siteCall(fr *Frame, cs *callSite, argsEvaluated bool) {
	if e.fc == nil || len(e.fc.Sites) == 0 {
		return
	}
	// sites are matched in the function body and in closures defined in it when those are inlined
	if fr != e.top && !e.definedIn(fr.fn, e.fn) {
		return
	}
	for i := range e.fc.Sites {
		st := &e.fc.Sites[i]
		if !e.siteMatchesCall(st, cs) {
			continue
		}
		if fr != e.top && e.closureSiteDone[fr.fn] {
			continue // already asserted at closure creation
		}
		ctx := e.sitePointCtx(fr)
		if argsEvaluated {
			names := e.paramNames(cs, nil)
			ctx.callArgNames = names
			for k, a := range cs.args {
				ctx.callArgs = append(ctx.callArgs, TV{V: a, Typ: cs.argTyps[k]})
			}
		}
		e.curSiteInstr = cs.instr
		e.assertSite(fr, st, ctx)
	}
}

func (e *Enc) definedIn(fn, outer *ssa.Function) bool {
	for f := fn; f != nil; f = f.Parent() {
		if f == outer {
			return true
		}
	}
	return false
}

// siteClosure: a closure created in the function under contract that contains a call matching a
// site clause: the site condition must hold where the closure is created.
func (e *Enc) siteClosure(fr *Frame, mc *ssa.MakeClosure, fv *FuncV) {
	if e.fc == nil || len(e.fc.Sites) == 0 || fr != e.top {
		return
	}
	// closures that are only ever called directly are encoded inline at their call sites; the
	// site obligations are generated there, with the precise state and arguments
	direct := true
	if refs := mc.Referrers(); refs != nil {
		for _, r := range *refs {
			switch x := r.(type) {
			case *ssa.DebugRef:
			case ssa.CallInstruction:
				if x.Common().Value != ssa.Value(mc) {
					direct = false
				}
				if _, isGo := r.(*ssa.Go); isGo {
					direct = false
				}
				// deferred closures are encoded inline where the defers run
			default:
				direct = false
			}
		}
	}
	if direct {
		return
	}
	e.closureFnSites(fr, fv.Fn)
}

func (e *Enc) closureFnSites(fr *Frame, fn *ssa.Function) {
	for i := range e.fc.Sites {
		st := &e.fc.Sites[i]
		if st.Kind != "call" {
			continue
		}
		if in := e.fnContainsCall(fn, st, 0); in != nil {
			e.closureSiteDone[fn] = true
			e.curSiteInstr = in
			e.assertSite(fr, st, e.sitePointCtx(fr))
		}
	}
}

func (e *Enc) fnContainsCall(fn *ssa.Function, st *Site, depth int) ssa.Instruction {
	if depth > 3 {
		return nil
	}
	for _, b := range fn.Blocks {
		for _, in := range b.Instrs {
			switch x := in.(type) {
			case ssa.CallInstruction:
				cs := e.buildCallSite(nil, in, x.Common())
				if e.siteMatchesCall(st, cs) {
					return in
				}
			case *ssa.MakeClosure:
				if r := e.fnContainsCall(x.Fn.(*ssa.Function), st, depth+1); r != nil {
					return r
				}
			}
		}
	}
	return nil
}

// a plain function value (no free variables) used as a value is a *ssa.Function operand, not a
// MakeClosure: handled where such operands are converted (ChangeType) or passed.
func (e *Enc) siteFuncOperand(fr *Frame, fn *ssa.Function) {
	if e.fc == nil || len(e.fc.Sites) == 0 || fr != e.top || fn.Parent() == nil {
		return
	}
	if e.funcOperandDone[fn] {
		return
	}
	e.funcOperandDone[fn] = true
	e.closureFnSites(fr, fn)
}

func namedTypeName(t types.Type) (pkg, name string) {
	if p, ok := t.(*types.Pointer); ok {
		t = p.Elem()
	}
	if nt, ok := t.(*types.Named); ok {
		if nt.Obj().Pkg() != nil {
			pkg = nt.Obj().Pkg().Name()
		}
		return pkg, nt.Obj().Name()
	}
	return "", ""
}

func (e *Enc) siteAlloc(fr *Frame, x *ssa.Alloc, et types.Type) {
	if e.fc == nil || fr != e.top {
		return
	}
	for i := range e.fc.Sites {
		st := &e.fc.Sites[i]
		if st.Kind != "alloc" {
			continue
		}
		pkg, name := namedTypeName(et)
		if name == "" || lastName(st.Target) != name {
			continue
		}
		if j := strings.LastIndex(st.Target, "."); j >= 0 && st.Target[:j] != pkg {
			continue
		}
		e.curSiteInstr = x
		e.assertSite(fr, st, e.sitePointCtx(fr))
	}
}

func (e *Enc) siteStore(fr *Frame, x *ssa.Store, pv *PtrV, et types.Type) {
	if e.fc == nil || !(fr == e.top || e.definedIn(fr.fn, e.fn)) {
		return
	}
	for i := range e.fc.Sites {
		st := &e.fc.Sites[i]
		if st.Kind != "store" {
			continue
		}
		fa, ok := x.Addr.(*ssa.FieldAddr)
		if !ok {
			continue
		}
		stt := fa.X.Type().Underlying().(*types.Pointer).Elem()
		_, tn := namedTypeName(stt)
		fname := under(stt).(*types.Struct).Field(fa.Field).Name()
		if st.Target != tn+"."+fname {
			continue
		}
		ctx := e.sitePointCtx(fr)
		sv := TV{V: e.val(fr, x.Val), Typ: x.Val.Type()}
		ctx.storeVal = &sv
		e.curSiteInstr = x
		e.assertSite(fr, st, ctx)
	}
}

func (e *Enc) siteMake(fr *Frame, x *ssa.MakeSlice, ln, cp T) {
	if e.fc == nil || !(fr == e.top || e.definedIn(fr.fn, e.fn)) {
		return
	}
	for i := range e.fc.Sites {
		st := &e.fc.Sites[i]
		if st.Kind != "make" {
			continue
		}
		ctx := e.sitePointCtx(fr)
		ctx.callArgNames = []string{"len", "cap"}
		ctx.callArgs = []TV{{V: ln}, {V: cp}}
		e.curSiteInstr = x
		e.assertSite(fr, st, ctx)
	}
}

func (e *Enc) siteMapUpdate(fr *Frame, x *ssa.MapUpdate) {
	if e.fc == nil || !(fr == e.top || e.definedIn(fr.fn, e.fn)) {
		return
	}
	for i := range e.fc.Sites {
		st := &e.fc.Sites[i]
		if st.Kind != "mapupdate" {
			continue
		}
		// target: name of the map variable/field
		if dynCalleeName(x.Map) != lastName(st.Target) && sourceNameOf(fr.fn, x.Map) != lastName(st.Target) {
			continue
		}
		ctx := e.sitePointCtx(fr)
		ctx.callArgNames = []string{"key", "val"}
		ctx.callArgs = []TV{{V: e.val(fr, x.Key), Typ: x.Key.Type()}, {V: e.val(fr, x.Value), Typ: x.Value.Type()}}
		e.curSiteInstr = x
		e.assertSite(fr, st, ctx)
	}
}

// ---------------------------------------------------------------------------------------------
// returns

func (e *Enc) resultTVs(fn *ssa.Function, vs []Val) ([]TV, map[string]int) {
	var out []TV
	names := map[string]int{}
	res := fn.Signature.Results()
	for i, v := range vs {
		out = append(out, TV{V: v, Typ: res.At(i).Type()})
		if n := res.At(i).Name(); n != "" && n != "_" {
			names[n] = i
		}
	}
	return out, names
}

func (e *Enc) nilnessResult(fn *ssa.Function, results []TV) (T, bool) {
	if len(results) == 0 {
		return T{}, false
	}
	// last result if it is an error, else first
	k := 0
	last := results[len(results)-1]
	if last.Typ != nil && types.Identical(last.Typ, types.Universe.Lookup("error").Type()) {
		k = len(results) - 1
	}
	r := results[k]
	switch v := r.V.(type) {
	case *IfaceV:
		return Eq(v.Tag, IntLit(0)), true
	case *PtrV:
		return Eq(e.ptrTerm(v), IntLit(0)), true
	case T:
		if v.Sort == SInt {
			return Eq(v, IntLit(0)), true
		}
	case *SliceV:
		return Eq(v.Base, IntLit(0)), true
	}
	return T{}, false
}

// returnsGlobal: one of the returned operands is (a load of, possibly converted to an interface)
// the package-level variable with the given name.
func returnsGlobal(x *ssa.Return, name string) bool {
	var isG func(v ssa.Value, depth int) bool
	isG = func(v ssa.Value, depth int) bool {
		if depth > 4 {
			return false
		}
		switch y := v.(type) {
		case *ssa.UnOp:
			if g, ok := y.X.(*ssa.Global); ok && y.Op == token.MUL {
				return g.Name() == lastName(name)
			}
		case *ssa.MakeInterface:
			return isG(y.X, depth+1)
		case *ssa.ChangeInterface:
			return isG(y.X, depth+1)
		case *ssa.Phi:
			for _, ed := range y.Edges {
				if isG(ed, depth+1) {
					return true
				}
			}
		}
		return false
	}
	for _, r := range x.Results {
		if isG(r, 0) {
			return true
		}
	}
	return false
}

func (e *Enc) atReturn(fr *Frame, x *ssa.Return, vs []Val) {
	if e.fc == nil {
		return
	}
	results, resNames := e.resultTVs(fr.fn, vs)
	ctx := &ExprCtx{e: e, fr: fr, st: fr.curState, old: e.entry, results: results, resNames: resNames, fc: e.fc}
	// "site return * [nth K]: domain E": E is ASSUMED about the returned values (a stated restriction of the
	// domain, listed in the evidence); the postconditions and the other return sites are proved under it
	for i := range e.fc.Sites {
		st := &e.fc.Sites[i]
		if st.Kind != "return" || !st.Assume || st.Target != "*" {
			continue
		}
		if st.Nth >= 0 && returnOrdinal(fr.fn, x) != st.Nth {
			continue
		}
		sctx := &ExprCtx{e: e, fr: fr, st: fr.curState, old: e.entry, results: results, resNames: resNames, block: fr.curB, idx: fr.curI, fc: e.fc, lenient: true}
		e.siteHits[st]++
		g := e.safeBool(sctx, st.Assert, "site "+e.siteLabel(st))
		e.note("DOMAIN ASSUMED at " + e.siteLabel(st) + " in " + shortFnName(fr.fn) + ": " + st.Assert.Text)
		fr.curReach = e.s.Define("reach:domain", And(fr.curReach, g))
		e.addCover("site:"+e.siteLabel(st), fr.curReach, "domain restriction is satisfiable at the return")
	}
	// in ensures clauses parameter names denote entry values: no block context for locals
	for i, en := range e.fc.Ensures {
		g := e.safeBool(ctx, en, "ensures")
		e.addObligation("post", fmt.Sprintf("#%d", i), fr.curReach, g, en.Text)
	}
	if e.fc.SingleExit && fr.isTop {
		// single-exit: every return statement but the last one in source order (for a function without
		// results: the implicit one at the end) must be unreachable
		n := 0
		for _, b := range fr.fn.Blocks {
			for _, in := range b.Instrs {
				if _, ok := in.(*ssa.Return); ok {
					n++
				}
			}
		}
		if returnOrdinal(fr.fn, x) < n-1 {
			e.addObligation("shape", "single-exit", fr.curReach, False, "the function leaves only through its last return statement")
		}
	}
	isNil, hasNil := e.nilnessResult(fr.fn, results)
	for i := range e.fc.Sites {
		st := &e.fc.Sites[i]
		if st.Kind != "return" || st.Assume {
			continue
		}
		cond := fr.curReach
		switch st.Target {
		case "*":
			// every return statement, whatever it returns (also of functions without results); with
			// nth K: the K-th return statement in source order, the implicit one at the end included
		case "nil":
			if !hasNil {
				continue
			}
			cond = And(cond, isNil)
		case "nonnil":
			if !hasNil {
				continue
			}
			cond = And(cond, Not(isNil))
		default:
			// a package-level sentinel error: the return statements that return that variable
			if !returnsGlobal(x, st.Target) {
				continue
			}
		}
		if st.Nth >= 0 && returnOrdinal(fr.fn, x) != st.Nth {
			// nth K on a return site: the K-th return statement of the function in source order
			// (all return statements are counted, whatever they return)
			continue
		}
		sctx := &ExprCtx{e: e, fr: fr, st: fr.curState, old: e.entry, results: results, resNames: resNames, block: fr.curB, idx: fr.curI, fc: e.fc, lenient: true}
		e.siteHits[st]++
		g := e.safeBool(sctx, st.Assert, "site "+e.siteLabel(st))
		e.addObligation("site", e.siteLabel(st), cond, g, st.Assert.Text)
		if st.Nth >= 0 {
			// a return site picked by ordinal: report when that return statement cannot return what the
			// site's target says (the clause would hold vacuously - usually a wrong ordinal)
			e.addCover("site:"+e.siteLabel(st), cond, "the chosen return statement can return the site's target")
		}
	}
	if e.fc.Covers && hasNil {
		hit := e.get(fr.curState, "ghost:sitehit", SBool)
		alts := []T{hit}
		for _, exc := range e.fc.CoverExc {
			var rv []TV
			for k := range e.callsNamed(lastName(exc)) {
				if tv, ok := e.retValue(lastName(exc), k); ok {
					rv = append(rv, tv)
				}
			}
			// the function result whose nil-ness is tested: last if it is an error, else first
			resK := 0
			if n := len(results); n > 0 && results[n-1].Typ != nil && types.Identical(results[n-1].Typ, types.Universe.Lookup("error").Type()) {
				resK = n - 1
			}
			for _, r := range rv {
				if r.Typ == nil {
					continue
				}
				// a callee returning a tuple contributes its last component (the error)
				if tup, ok := r.V.(*TupleV); ok {
					tt := r.Typ.(*types.Tuple)
					r = TV{V: tup.E[len(tup.E)-1], Typ: tt.At(tt.Len() - 1).Type()}
				}
				// result equals the value returned by the excepted callee
				if len(results) > 0 && results[resK].Typ != nil && types.Identical(r.Typ, results[resK].Typ) {
					alts = append(alts, e.eqValLoose(results[resK].V, r.V, r.Typ, r.Typ))
				}
			}
		}
		e.addObligation("covers", "nonnil-return", And(fr.curReach, Not(isNil)), Or(alts...), "every non-nil return is produced at an annotated failure site")
	}
	if e.fc.ModGiven && !e.fc.ModAssumed {
		e.frameObligation(fr)
	} else if e.fc.ModAssumed {
		e.note("frame of " + e.fnDisplayName() + " is assumed (modifies-assumed), not checked")
	}
}

// frameObligation: everything outside the declared modifies set is unchanged at return.
func (e *Enc) frameObligation(fr *Frame) {
	// allowed locations
	ctx := &ExprCtx{e: e, fr: fr, st: e.entry, old: e.entry, fc: e.fc}
	type allowed struct {
		key string
		idx T
	}
	var al []allowed
	mapRefs := map[string][]T{} // map type key -> refs of the map objects whose contents may change
	for _, m := range e.fc.Modifies {
		if call, ok := m.Expr.(CCall); ok {
			if id, ok2 := call.Fun.(CIdent); ok2 && id.Name == "mapof" && len(call.Args) == 1 {
				mv := ctx.expr(call.Args[0])
				mapRefs[typeKey(mv.Typ)] = append(mapRefs[typeKey(mv.Typ)], e.scalar(mv.V))
			}
			continue
		}
		sel, ok := m.Expr.(CSel)
		if !ok {
			// whole-object modifies: skip precise frame for those
			continue
		}
		base := ctx.expr(sel.X)
		pt, ok := under(base.Typ).(*types.Pointer)
		if !ok {
			continue
		}
		path := fieldPath(pt.Elem(), sel.Sel)
		a := e.asPtr(base.V, base.Typ).A
		cur := pt.Elem()
		for k, idx := range path {
			su := under(cur).(*types.Struct)
			if k == len(path)-1 {
				fa := e.fieldAddr(a, cur, idx)
				l := e.locOf(fa, su.Field(idx).Type())
				if len(l.idx) == 1 {
					al = append(al, allowed{l.key, l.idx[0]})
				}
			} else {
				a = e.fieldAddr(a, cur, idx)
				cur = su.Field(idx).Type()
			}
		}
	}
	for _, k := range sortedKeys(fr.curState.m) {
		if strings.HasPrefix(k, "c:") || strings.HasPrefix(k, "ghost:") {
			continue
		}
		cur := fr.curState.m[k]
		ent := e.entryKey(k, e.keySorts[k])
		if cur.S == ent.S {
			continue
		}
		if mk, isMapKey := mapTypeOfKey(k); isMapKey && isArrSort(cur.Sort) {
			// contents of map objects: only the listed objects and objects created during the
			// call may differ
			bv := T{"|fx|", SInt}
			var exc []T
			for _, r := range mapRefs[mk] {
				exc = append(exc, Eq(bv, r))
			}
			for _, ar := range e.allocRefs {
				exc = append(exc, Eq(bv, ar))
			}
			body := Imp(Not(Or(exc...)), Eq(Select(cur, bv), Select(ent, bv)))
			g := T{"(forall ((|fx| Int)) " + body.S + ")", SBool}
			e.addObligation("frame", k, fr.curReach, g, "only the declared map objects of "+k+" change")
			continue
		}
		if !strings.HasPrefix(k, "f:") || !isArrSort(cur.Sort) {
			e.addObligation("frame", k, fr.curReach, Eq(cur, ent), "location "+k+" is not in the modifies clause")
			continue
		}
		// forall x not in allowed: cur[x] == ent[x]
		bv := T{"|fx|", SInt}
		var exc []T
		for _, a := range al {
			if a.key == k || strings.HasPrefix(k, a.key+".") {
				exc = append(exc, Eq(bv, a.idx))
			}
		}
		// objects allocated during the call are not part of the caller-visible frame
		for _, ar := range e.allocRefs {
			exc = append(exc, Eq(bv, ar))
		}
		body := Imp(Not(Or(exc...)), Eq(Select(cur, bv), Select(ent, bv)))
		g := T{"(forall ((|fx| Int)) " + body.S + ")", SBool}
		e.addObligation("frame", k, fr.curReach, g, "only the declared locations of "+k+" change")
	}
}

// mapTypeOfKey: for heap keys md:T / ml:T / mv:T[.leaf] the map type key T.
func mapTypeOfKey(k string) (string, bool) {
	for _, p := range []string{"md:", "ml:"} {
		if strings.HasPrefix(k, p) {
			return k[len(p):], true
		}
	}
	if strings.HasPrefix(k, "mv:") {
		t := k[3:]
		// leaf suffixes (.base/.off/.len/.cap/.tag/.data/.N) follow the closing bracket / name
		for _, suf := range []string{".base", ".off", ".len", ".cap", ".tag", ".data"} {
			if strings.HasSuffix(t, suf) {
				return strings.TrimSuffix(t, suf), true
			}
		}
		return t, true
	}
	return "", false
}

// sourceNameOf: the source-level variable name bound to an SSA value (via DebugRef), if any.
func sourceNameOf(fn *ssa.Function, v ssa.Value) string {
	for _, b := range fn.Blocks {
		for _, in := range b.Instrs {
			if d, ok := in.(*ssa.DebugRef); ok && d.X == v && !d.IsAddr {
				if obj := d.Object(); obj != nil {
					return obj.Name()
				}
			}
		}
	}
	return ""
}

// siteOrdinal: position (in source order) of instr among the instructions of the top function and
// its nested closures that match the site clause.
func (e *Enc) siteOrdinal(st *Site, instr ssa.Instruction) int {
	if instr == nil {
		return -1
	}
	lst, ok := e.siteInstrs[st]
	if !ok {
		var visit func(fn *ssa.Function)
		visit = func(fn *ssa.Function) {
			for _, b := range fn.Blocks {
				for _, in := range b.Instrs {
					if e.siteMatchesInstr(st, in) {
						if st.Kind == "call" && e.logOnlyCall(in) {
							continue // calls that only feed a log statement are not numbered
						}
						lst = append(lst, in)
					}
				}
			}
			for _, a := range fn.AnonFuncs {
				visit(a)
			}
		}
		visit(e.fn)
		sort.SliceStable(lst, func(i, j int) bool { return lst[i].Pos() < lst[j].Pos() })
		e.siteInstrs[st] = lst
	}
	for i, in := range lst {
		if in == instr {
			return i
		}
	}
	return -1
}

func (e *Enc) siteMatchesInstr(st *Site, in ssa.Instruction) bool {
	switch st.Kind {
	case "call":
		ci, ok := in.(ssa.CallInstruction)
		if !ok {
			return false
		}
		if _, isGo := in.(*ssa.Go); isGo {
			return false
		}
		return e.siteMatchesCall(st, e.buildCallSite(nil, in, ci.Common()))
	case "store":
		x, ok := in.(*ssa.Store)
		if !ok {
			return false
		}
		fa, ok := x.Addr.(*ssa.FieldAddr)
		if !ok {
			return false
		}
		stt := fa.X.Type().Underlying().(*types.Pointer).Elem()
		_, tn := namedTypeName(stt)
		fname := under(stt).(*types.Struct).Field(fa.Field).Name()
		return st.Target == tn+"."+fname
	case "alloc":
		x, ok := in.(*ssa.Alloc)
		if !ok {
			return false
		}
		et := x.Type().Underlying().(*types.Pointer).Elem()
		pkg, name := namedTypeName(et)
		if name == "" || lastName(st.Target) != name {
			return false
		}
		if j := strings.LastIndex(st.Target, "."); j >= 0 && st.Target[:j] != pkg {
			return false
		}
		return true
	case "mapupdate":
		x, ok := in.(*ssa.MapUpdate)
		if !ok {
			return false
		}
		return dynCalleeName(x.Map) == lastName(st.Target) || sourceNameOf(in.Parent(), x.Map) == lastName(st.Target)
	case "make":
		_, ok := in.(*ssa.MakeSlice)
		return ok
	case "lookup":
		x, ok := in.(*ssa.Lookup)
		if !ok || isStringType(x.X.Type()) {
			return false
		}
		return dynCalleeName(x.X) == lastName(st.Target) || sourceNameOf(in.Parent(), x.X) == lastName(st.Target)
	case "send":
		switch x := in.(type) {
		case *ssa.Send:
			return chanName(in.Parent(), x.Chan) == lastName(st.Target)
		case *ssa.Select:
			for _, sc := range x.States {
				if sc.Dir == types.SendOnly && chanName(in.Parent(), sc.Chan) == lastName(st.Target) {
					return true
				}
			}
		}
		return false
	}
	return false
}

// chanName: the field / variable a channel operand was read from.
func chanName(fn *ssa.Function, v ssa.Value) string {
	if n := dynCalleeName(v); n != "" {
		return n
	}
	return sourceNameOf(fn, v)
}

// siteSend: `site send CHAN: assert E` holds wherever a value may be sent on a channel read from the
// field or variable CHAN - a plain send statement, or a send case of a select (asserted at the
// select itself: whether the case is taken is not modelled, so E must hold whenever it could be).
// `value` is the value sent.
func (e *Enc) siteSend(fr *Frame, in ssa.Instruction, ch ssa.Value, val ssa.Value) {
	if e.fc == nil || !(fr == e.top || e.definedIn(fr.fn, e.fn)) {
		return
	}
	for i := range e.fc.Sites {
		st := &e.fc.Sites[i]
		if st.Kind != "send" || chanName(fr.fn, ch) != lastName(st.Target) {
			continue
		}
		ctx := e.sitePointCtx(fr)
		sv := TV{V: e.val(fr, val), Typ: val.Type()}
		ctx.storeVal = &sv
		e.curSiteInstr = in
		e.assertSite(fr, st, ctx)
	}
}

// siteLookup: `site lookup MAP: assert E` holds wherever the map read from the field or variable MAP
// is indexed (m[k] as a value, including the comma-ok form); arg(key) is the key.
func (e *Enc) siteLookup(fr *Frame, x *ssa.Lookup) {
	if e.fc == nil || !(fr == e.top || e.definedIn(fr.fn, e.fn)) {
		return
	}
	for i := range e.fc.Sites {
		st := &e.fc.Sites[i]
		if st.Kind != "lookup" {
			continue
		}
		if dynCalleeName(x.X) != lastName(st.Target) && sourceNameOf(fr.fn, x.X) != lastName(st.Target) {
			continue
		}
		ctx := e.sitePointCtx(fr)
		ctx.callArgNames = []string{"key"}
		ctx.callArgs = []TV{{V: e.val(fr, x.Index), Typ: x.Index.Type()}}
		e.curSiteInstr = x
		e.assertSite(fr, st, ctx)
	}
}

// returnOrdinal: position of a return statement among the function's return statements, in
// source order.
func returnOrdinal(fn *ssa.Function, x *ssa.Return) int {
	var rs []*ssa.Return
	for _, b := range fn.Blocks {
		for _, in := range b.Instrs {
			if r, ok := in.(*ssa.Return); ok {
				rs = append(rs, r)
			}
		}
	}
	// the implicit return at the end of a function without results has no position: it is the last one
	pos := func(r *ssa.Return) token.Pos {
		if !r.Pos().IsValid() {
			return token.Pos(1 << 40)
		}
		return r.Pos()
	}
	sort.SliceStable(rs, func(i, j int) bool { return pos(rs[i]) < pos(rs[j]) })
	for i, r := range rs {
		if r == x {
			return i
		}
	}
	return -1
}
