package main

func replayOnCode(o *Obligation, solverOut string) (bool, string) {
	return false, "replay on the real code is not available for this obligation"
}
