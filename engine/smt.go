package main

// SMT term construction and the three-solver race.

import (
	"bytes"
	"context"
	"fmt"
	"math/big"
	"os"
	"os/exec"
	"path/filepath"
	"sort"
	"strings"
	"sync"
	"time"
)

// T is an SMT-LIB term with its sort.
type T struct {
	S    string
	Sort string
}

const (
	SInt  = "Int"
	SBool = "Bool"
	SF    = "F" // uninterpreted float sort
)

func arrSort(k, v string) string { return "(Array " + k + " " + v + ")" }

func isArrSort(s string) bool { return strings.HasPrefix(s, "(Array ") }

// arrElemSort returns the value sort of a one-dimensional Int-indexed array sort.
func arrElemSort(s string) string {
	// "(Array Int X)"
	if !strings.HasPrefix(s, "(Array Int ") {
		panic("arrElemSort: " + s)
	}
	return s[len("(Array Int ") : len(s)-1]
}

func bvSort(n int) string { return fmt.Sprintf("(_ BitVec %d)", n) }

func isBVSort(s string) bool { return strings.HasPrefix(s, "(_ BitVec ") }

func bvWidth(s string) int {
	var n int
	fmt.Sscanf(s, "(_ BitVec %d)", &n)
	return n
}

var (
	True  = T{"true", SBool}
	False = T{"false", SBool}
)

func IntLit(v int64) T { return IntBig(big.NewInt(v)) }

func IntBig(v *big.Int) T {
	if v.Sign() < 0 {
		return T{"(- " + new(big.Int).Neg(v).String() + ")", SInt}
	}
	return T{v.String(), SInt}
}

func BVLit(v *big.Int, w int) T {
	m := new(big.Int).Lsh(big.NewInt(1), uint(w))
	x := new(big.Int).Mod(v, m)
	return T{fmt.Sprintf("(_ bv%s %d)", x.String(), w), bvSort(w)}
}

func App(sort, op string, args ...T) T {
	var b strings.Builder
	b.WriteByte('(')
	b.WriteString(op)
	for _, a := range args {
		b.WriteByte(' ')
		b.WriteString(a.S)
	}
	b.WriteByte(')')
	return T{b.String(), sort}
}

func Not(a T) T {
	switch a.S {
	case "true":
		return False
	case "false":
		return True
	}
	return App(SBool, "not", a)
}

func And(as ...T) T {
	var xs []T
	for _, a := range as {
		if a.S == "true" {
			continue
		}
		if a.S == "false" {
			return False
		}
		xs = append(xs, a)
	}
	switch len(xs) {
	case 0:
		return True
	case 1:
		return xs[0]
	}
	return App(SBool, "and", xs...)
}

func Or(as ...T) T {
	var xs []T
	for _, a := range as {
		if a.S == "false" {
			continue
		}
		if a.S == "true" {
			return True
		}
		xs = append(xs, a)
	}
	switch len(xs) {
	case 0:
		return False
	case 1:
		return xs[0]
	}
	return App(SBool, "or", xs...)
}

func Imp(a, b T) T {
	if a.S == "true" {
		return b
	}
	if a.S == "false" || b.S == "true" {
		return True
	}
	return App(SBool, "=>", a, b)
}

func Eq(a, b T) T {
	if a.S == b.S {
		return True
	}
	if a.Sort != b.Sort {
		panic(fmt.Sprintf("Eq: sort mismatch %s:%s vs %s:%s", a.S, a.Sort, b.S, b.Sort))
	}
	return App(SBool, "=", a, b)
}

func Ite(c, a, b T) T {
	if c.S == "true" {
		return a
	}
	if c.S == "false" {
		return b
	}
	if a.S == b.S {
		return a
	}
	if a.Sort != b.Sort {
		panic(fmt.Sprintf("Ite: sort mismatch %s:%s vs %s:%s", a.S, a.Sort, b.S, b.Sort))
	}
	return App(a.Sort, "ite", c, a, b)
}

func Select(a, i T) T {
	if !isArrSort(a.Sort) {
		panic("Select on non-array " + a.S + " : " + a.Sort)
	}
	// value sort: strip "(Array <k> " prefix. Key sort is always Int here.
	return App(arrElemSort(a.Sort), "select", a, i)
}

func Store(a, i, v T) T { return App(a.Sort, "store", a, i, v) }

func Add(a, b T) T {
	if x, y, ok := twoLits(a, b); ok {
		return IntBig(new(big.Int).Add(x, y))
	}
	return App(SInt, "+", a, b)
}
func Sub(a, b T) T {
	if x, y, ok := twoLits(a, b); ok && x.Cmp(y) >= 0 {
		return IntBig(new(big.Int).Sub(x, y))
	}
	return App(SInt, "-", a, b)
}

// twoLits: both terms are plain non-negative integer literals (constant folding of slice bounds).
func twoLits(a, b T) (*big.Int, *big.Int, bool) {
	isLit := func(s string) bool {
		if s == "" || len(s) > 30 {
			return false
		}
		for _, c := range s {
			if c < '0' || c > '9' {
				return false
			}
		}
		return true
	}
	if !isLit(a.S) || !isLit(b.S) {
		return nil, nil, false
	}
	x, _ := new(big.Int).SetString(a.S, 10)
	y, _ := new(big.Int).SetString(b.S, 10)
	return x, y, true
}
func Mul(a, b T) T { return App(SInt, "*", a, b) }
func Le(a, b T) T  { return App(SBool, "<=", a, b) }
func Lt(a, b T) T  { return App(SBool, "<", a, b) }
func Ge(a, b T) T  { return App(SBool, ">=", a, b) }
func Gt(a, b T) T  { return App(SBool, ">", a, b) }

// TDiv is Go's truncated division over mathematical integers (b != 0).
func TDiv(a, b T) T {
	// for b > 0: a>=0 -> div a b ; a<0 -> -(div (-a) b)
	// for b < 0: result = -(tdiv a (-b))
	pos := Ite(Ge(a, IntLit(0)), App(SInt, "div", a, b), App(SInt, "-", App(SInt, "div", App(SInt, "-", a), b)))
	nb := App(SInt, "-", b)
	neg := App(SInt, "-", Ite(Ge(a, IntLit(0)), App(SInt, "div", a, nb), App(SInt, "-", App(SInt, "div", App(SInt, "-", a), nb))))
	if isPosLit(b) {
		if isNonNegHint(a) {
			return App(SInt, "div", a, b)
		}
		return pos
	}
	return Ite(Gt(b, IntLit(0)), pos, neg)
}

// TMod is Go's remainder: a - b*tdiv(a,b).
func TMod(a, b T) T { return Sub(a, Mul(b, TDiv(a, b))) }

func isPosLit(t T) bool {
	if t.Sort != SInt || len(t.S) == 0 {
		return false
	}
	for _, c := range t.S {
		if c < '0' || c > '9' {
			return false
		}
	}
	return t.S != "0"
}

func isNonNegHint(t T) bool { return isPosLit(t) || t.S == "0" }

func quoteSym(s string) string {
	ok := true
	for _, c := range s {
		if !(c >= 'a' && c <= 'z' || c >= 'A' && c <= 'Z' || c >= '0' && c <= '9' || c == '_' || c == '.' || c == '$' || c == '!' || c == '@' || c == '#' || c == '%' || c == '^' || c == '&' || c == '~' || c == '?' || c == '/' || c == '<' || c == '>' || c == '=' || c == '+' || c == '-' || c == '*') {
			ok = false
			break
		}
	}
	if ok && len(s) > 0 && !(s[0] >= '0' && s[0] <= '9') {
		return s
	}
	s = strings.ReplaceAll(s, "|", "!")
	s = strings.ReplaceAll(s, "\\", "!")
	return "|" + s + "|"
}

// ---------------------------------------------------------------------------------------------
// Script: declarations and assumptions accumulate in generation order; an obligation uses the
// prefix that existed when it was generated.

type Obligation struct {
	Name     string // stable name (without property prefix)
	Kind     string // post, pre, site, inv-init, inv-pres, nowrap, bounds, div0, nopanic, frame, lemma, cover
	Fn       string // function under contract
	Goal     T      // must be valid under assumptions (for cover: guard must be satisfiable)
	Cover    bool   // if true: obligation is "Goal is satisfiable" (vacuity guard)
	nDecls   int
	nAssume  int
	script   *Script
	Desc     string   // human readable: source text of the clause
	Inputs   []string // names of SMT constants worth reporting from a model
	Props    []string
	replaySpec *ReplaySpec
}

type Script struct {
	decls   []string
	assumes []T
	names   map[string]int
	declSet map[string]bool
}

func NewScript() *Script {
	return &Script{names: map[string]int{}, declSet: map[string]bool{}}
}

func (s *Script) fresh(base string) string {
	n := s.names[base]
	s.names[base] = n + 1
	if n == 0 {
		return base
	}
	return fmt.Sprintf("%s!%d", base, n)
}

// Const declares a fresh constant and returns it.
func (s *Script) Const(base, sort string) T {
	name := quoteSym(s.fresh(base))
	s.decls = append(s.decls, fmt.Sprintf("(declare-fun %s () %s)", name, sort))
	return T{name, sort}
}

// Define introduces a named abbreviation for a term (keeps queries DAG-shaped).
func (s *Script) Define(base string, t T) T {
	if len(t.S) < 40 {
		return t
	}
	name := quoteSym(s.fresh(base))
	s.decls = append(s.decls, fmt.Sprintf("(define-fun %s () %s %s)", name, t.Sort, t.S))
	return T{name, t.Sort}
}

// DeclareFun declares an uninterpreted function once.
func (s *Script) DeclareFun(name string, args []string, ret string) string {
	q := quoteSym(name)
	if !s.declSet[q] {
		s.declSet[q] = true
		s.decls = append(s.decls, fmt.Sprintf("(declare-fun %s (%s) %s)", q, strings.Join(args, " "), ret))
	}
	return q
}

func (s *Script) DeclareSortOnce(name string) {
	k := "sort:" + name
	if !s.declSet[k] {
		s.declSet[k] = true
		s.decls = append(s.decls, fmt.Sprintf("(declare-sort %s 0)", name))
	}
}

func (s *Script) Raw(key, decl string) {
	if key != "" {
		if s.declSet[key] {
			return
		}
		s.declSet[key] = true
	}
	s.decls = append(s.decls, decl)
}

func (s *Script) Assume(t T) {
	if t.S == "true" {
		return
	}
	s.assumes = append(s.assumes, t)
}

func (s *Script) NewObligation(o Obligation) *Obligation {
	o.nDecls = len(s.decls)
	o.nAssume = len(s.assumes)
	o.script = s
	return &o
}

// Render builds the SMT-LIB text of an obligation.
func (o *Obligation) Render(withModel bool) string {
	var b bytes.Buffer
	s := o.script
	if withModel {
		b.WriteString("(set-option :produce-models true)\n")
	}
	logic := "ALL"
	b.WriteString("(set-logic " + logic + ")\n")
	for _, d := range s.decls[:o.nDecls] {
		if o.Cover && strings.HasPrefix(d, "(define-fun-rec ") {
			// vacuity guards only need satisfiability: recursive range quantifiers are abstracted
			// to uninterpreted predicates (solvers rarely produce models through recursion)
			d = abstractRecFun(d)
		}
		if o.Cover && strings.HasPrefix(d, "(assert (forall ") {
			continue // quantified background axioms are not needed for a satisfiability witness
		}
		b.WriteString(d)
		b.WriteByte('\n')
	}
	for _, a := range s.assumes[:o.nAssume] {
		b.WriteString("(assert " + a.S + ")\n")
	}
	if o.Cover {
		b.WriteString("(assert " + o.Goal.S + ")\n")
	} else {
		b.WriteString("(assert (not " + o.Goal.S + "))\n")
	}
	b.WriteString("(check-sat)\n")
	if withModel {
		if len(o.Inputs) > 0 {
			b.WriteString("(get-value (" + strings.Join(o.Inputs, " ") + "))\n")
		}
	}
	return b.String()
}

// ---------------------------------------------------------------------------------------------
// Solver race

type SolverResult struct {
	Status  string // "unsat", "sat", "unknown", "timeout", "error"
	Solver  string
	Output  string
	Elapsed float64
	All     map[string]string // solver -> status (thorough tier)
}

type solverDef struct {
	name string
	argv func(file string, timeoutS int) []string
}

var solverDefs = []solverDef{
	{"z3-new-5.1.0", func(f string, t int) []string {
		return []string{"z3-new", fmt.Sprintf("-T:%d", t), f}
	}},
	{"cvc5-1.0", func(f string, t int) []string {
		return []string{"cvc5", "--produce-models", fmt.Sprintf("--tlimit=%d", t*1000), f}
	}},
	{"z3-4.8.12", func(f string, t int) []string {
		return []string{"z3", fmt.Sprintf("-T:%d", t), f}
	}},
}

var tmpDir string
var tmpOnce sync.Once

func scratchDir() string {
	tmpOnce.Do(func() {
		d, err := os.MkdirTemp("", "gowp-")
		if err != nil {
			panic(err)
		}
		tmpDir = d
	})
	return tmpDir
}

func cleanupScratch() {
	if tmpDir != "" {
		os.RemoveAll(tmpDir)
	}
}

var fileCounter int
var fileMu sync.Mutex

func firstLine(s string) string {
	for _, l := range strings.Split(s, "\n") {
		l = strings.TrimSpace(l)
		if l != "" {
			return l
		}
	}
	return ""
}

func classify(out string) string {
	switch fl := firstLine(out); fl {
	case "unsat", "sat", "unknown":
		return fl
	case "timeout":
		return "timeout"
	default:
		if strings.Contains(out, "timeout") || strings.Contains(out, "interrupted") {
			return "timeout"
		}
		return "error"
	}
}

// RunSolvers races the solvers on the query. If all is true every solver is run to completion
// (or timeout) and their answers must agree.
func RunSolvers(query string, timeoutS int, all bool) SolverResult {
	fileMu.Lock()
	fileCounter++
	fn := filepath.Join(scratchDir(), fmt.Sprintf("q%d.smt2", fileCounter))
	fileMu.Unlock()
	if err := os.WriteFile(fn, []byte(query), 0o644); err != nil {
		return SolverResult{Status: "error", Output: err.Error()}
	}
	defer os.Remove(fn)

	type res struct {
		solver string
		status string
		out    string
		el     float64
	}
	ctx, cancel := context.WithTimeout(context.Background(), time.Duration(timeoutS+5)*time.Second)
	defer cancel()
	ch := make(chan res, len(solverDefs))
	start := time.Now()
	for _, sd := range solverDefs {
		sd := sd
		go func() {
			argv := sd.argv(fn, timeoutS)
			cmd := exec.CommandContext(ctx, argv[0], argv[1:]...)
			var ob bytes.Buffer
			cmd.Stdout = &ob
			cmd.Stderr = &ob
			_ = cmd.Run()
			out := ob.String()
			st := classify(out)
			if ctx.Err() != nil && st == "error" {
				st = "timeout"
			}
			ch <- res{sd.name, st, out, time.Since(start).Seconds()}
		}()
	}
	final := SolverResult{Status: "unknown", All: map[string]string{}}
	var outs []string
	got := 0
	for got < len(solverDefs) {
		r := <-ch
		got++
		final.All[r.solver] = r.status
		outs = append(outs, fmt.Sprintf("--- %s: %s (%.2fs)\n%s", r.solver, r.status, r.el, truncate(r.out, 4000)))
		if r.status == "unsat" || r.status == "sat" {
			if final.Status != "unsat" && final.Status != "sat" {
				final.Status = r.status
				final.Solver = r.solver
				final.Elapsed = r.el
				final.Output = r.out
				if !all {
					cancel()
					// drain the others in the background
					go func(n int) {
						for i := 0; i < n; i++ {
							<-ch
						}
					}(len(solverDefs) - got)
					return final
				}
			} else if final.Status != r.status {
				final.Status = "disagree"
			}
		}
	}
	if final.Status != "unsat" && final.Status != "sat" {
		final.Elapsed = time.Since(start).Seconds()
		final.Output = strings.Join(outs, "\n")
		// prefer "timeout" over "unknown" for reporting if any timed out
		st := "unknown"
		for _, v := range final.All {
			if v == "timeout" {
				st = "timeout"
			}
		}
		allErr := true
		for _, v := range final.All {
			if v != "error" {
				allErr = false
			}
		}
		if allErr {
			st = "error"
		}
		if final.Status != "disagree" {
			final.Status = st
		}
	}
	return final
}

func truncate(s string, n int) string {
	if len(s) <= n {
		return s
	}
	return s[:n] + "…"
}

// parseModelValues parses "(get-value ...)" output: ((name value) ...)
func parseModelValues(out string) map[string]string {
	m := map[string]string{}
	i := strings.Index(out, "((")
	if i < 0 {
		return m
	}
	s := out[i:]
	// simple s-expression walk
	toks := tokenizeSexp(s)
	// expect ( ( name value ) ( name value ) ... )
	pos := 0
	var parse func() string
	parse = func() string {
		if pos >= len(toks) {
			return ""
		}
		t := toks[pos]
		pos++
		if t != "(" {
			return t
		}
		var parts []string
		for pos < len(toks) && toks[pos] != ")" {
			parts = append(parts, parse())
		}
		pos++
		return "(" + strings.Join(parts, " ") + ")"
	}
	if len(toks) == 0 || toks[0] != "(" {
		return m
	}
	pos = 1
	for pos < len(toks) && toks[pos] == "(" {
		pos++
		name := parse()
		val := parse()
		if pos < len(toks) && toks[pos] == ")" {
			pos++
		}
		m[name] = val
	}
	return m
}

func tokenizeSexp(s string) []string {
	var toks []string
	i := 0
	for i < len(s) {
		c := s[i]
		switch {
		case c == '(' || c == ')':
			toks = append(toks, string(c))
			i++
		case c == ' ' || c == '\n' || c == '\t' || c == '\r':
			i++
		case c == '|':
			j := strings.IndexByte(s[i+1:], '|')
			if j < 0 {
				return toks
			}
			toks = append(toks, s[i:i+j+2])
			i += j + 2
		case c == '"':
			j := strings.IndexByte(s[i+1:], '"')
			if j < 0 {
				return toks
			}
			toks = append(toks, s[i:i+j+2])
			i += j + 2
		default:
			j := i
			for j < len(s) && !strings.ContainsRune("() \n\t\r", rune(s[j])) {
				j++
			}
			toks = append(toks, s[i:j])
			i = j
		}
	}
	return toks
}

// smtIntValue converts a model value like "5", "(- 5)" to a big.Int.
func smtIntValue(v string) (*big.Int, bool) {
	v = strings.TrimSpace(v)
	neg := false
	if strings.HasPrefix(v, "(-") {
		neg = true
		v = strings.TrimSpace(strings.TrimSuffix(strings.TrimPrefix(v, "(-"), ")"))
	}
	if strings.HasPrefix(v, "#x") {
		n, ok := new(big.Int).SetString(v[2:], 16)
		return n, ok
	}
	if strings.HasPrefix(v, "#b") {
		n, ok := new(big.Int).SetString(v[2:], 2)
		return n, ok
	}
	if strings.HasPrefix(v, "(_ bv") {
		f := strings.Fields(v)
		n, ok := new(big.Int).SetString(strings.TrimPrefix(f[1], "bv"), 10)
		return n, ok
	}
	n, ok := new(big.Int).SetString(v, 10)
	if ok && neg {
		n.Neg(n)
	}
	return n, ok
}

func sortedKeys[V any](m map[string]V) []string {
	ks := make([]string, 0, len(m))
	for k := range m {
		ks = append(ks, k)
	}
	sort.Strings(ks)
	return ks
}

// abstractRecFun turns "(define-fun-rec name ((p S) ...) R body)" into a declare-fun.
func abstractRecFun(d string) string {
	toks := tokenizeSexp(d)
	// ( define-fun-rec name ( (p S) ... ) R ...
	if len(toks) < 5 {
		return d
	}
	name := toks[2]
	i := 3
	if toks[i] != "(" {
		return d
	}
	i++
	var sorts []string
	for i < len(toks) && toks[i] == "(" {
		// ( p S )  where S may be compound
		i += 2
		depth := 0
		start := i
		for i < len(toks) {
			if toks[i] == "(" {
				depth++
			} else if toks[i] == ")" {
				if depth == 0 {
					break
				}
				depth--
			}
			i++
		}
		sorts = append(sorts, strings.Join(toks[start:i], " "))
		i++ // closing of (p S)
	}
	i++ // closing of param list
	// return sort
	ret := toks[i]
	if ret == "(" {
		depth := 0
		start := i
		for i < len(toks) {
			if toks[i] == "(" {
				depth++
			} else if toks[i] == ")" {
				depth--
				if depth == 0 {
					break
				}
			}
			i++
		}
		ret = strings.Join(toks[start:i+1], " ")
	}
	return fmt.Sprintf("(declare-fun %s (%s) %s)", name, strings.Join(sorts, " "), ret)
}
