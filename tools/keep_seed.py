#!/usr/bin/env python3
"""keep_seed.py <seed-dir> <property> <confirm-json> <caught-by ...>  : copy a confirmed seeded change into /verif/seeded/."""
import sys, os, shutil, json, re
seed, prop, confirm = sys.argv[1], sys.argv[2], json.loads(sys.argv[3])
caught = sys.argv[4:]
name = os.path.basename(seed.rstrip('/'))
dst = f'/verif/seeded/{name}'
os.makedirs(dst, exist_ok=True)
for f in ('patch.diff', 'demo_test.go', 'notes.md'):
    shutil.copy(os.path.join(seed, f), os.path.join(dst, f))
notes = open(os.path.join(seed, 'notes.md')).read()
meta = {
    'property': prop,
    'source': 'independent sub-agent given only the property text and a scratch worktree at the base commit',
    'needs_to_manifest': re.sub(r'\s+', ' ', notes)[:1500],
    'confirmed': confirm,
    'confirmed_how': 'tools/confirm_seed.sh in the scratch worktree: git apply, go build, existing package tests with the patch, demo test with and without the patch',
    'detected_by_check': bool(caught),
    'failed_obligations': caught,
}
json.dump(meta, open(os.path.join(dst, 'meta.json'), 'w'), indent=1)
print('kept', dst)
