#!/bin/bash
# usage: regress_seeds.sh [seed-glob]   (default: all kept seeds)
# Re-checks every kept seeded change against the CURRENT contracts without touching /repo: a scratch worktree of
# /repo's HEAD (contract files included) gets each patch in turn and the property's quick check runs there
# (GOWP_REPO: no evidence is written, the contract lock is not consulted). One line per seed:
# (SEEDROOT=/tmp/seedstore checks seeds that are not kept yet; failed obligations go to /tmp/det/<seed>.txt)
# caught (n) / MISSED / ERROR (engine exit 2) / does-not-apply. Removes the worktree afterwards.
cd /verif && . ./env.sh
wt=/tmp/regress_wt_$$
git -C /repo worktree add --detach -q $wt HEAD || exit 2
trap 'git -C /repo worktree remove --force '$wt EXIT
export GOWP_REPO=$wt GOWP_OUT=/tmp/regress_out_$$ GOWP_NOLOCK=1
for d in ${SEEDROOT:-/verif/seeded}/${1:-C*}; do
  [ -f $d/patch.diff ] || continue
  s=$(basename $d); p=${s%%-*}
  if ! git -C $wt apply $d/patch.diff 2>/dev/null; then
    # patches taken against an older HEAD: try a 3-way apply
    if ! git -C $wt apply --3way $d/patch.diff >/dev/null 2>&1; then echo "$s does-not-apply"; git -C $wt reset -q --hard; continue; fi
  fi
  out=$(bin/gowp check --property $p --tier quick 2>&1); code=$?
  n=$(echo "$out" | grep -c '^VIOLATION')
  mkdir -p /tmp/det; echo "$out" | grep '^VIOLATION' | sed -E 's|.*replay=[^ ]*/([^/ ]+)\.json.*|\1|' | sed -E 's/^__//' > /tmp/det/$s.txt
  if [ "$n" -gt 0 ]; then echo "$s caught ($n) $(head -2 /tmp/det/$s.txt | tr '\n' ' ' | cut -c1-200)"; elif [ $code -ne 0 ]; then echo "$s ERROR exit=$code $(echo "$out" | grep 'gowp:\|ENGINE' | head -1 | cut -c1-160)"; else echo "$s MISSED"; fi
  git -C $wt reset -q --hard
done
rm -rf /tmp/regress_out_$$
