#!/bin/bash
# Runs the thorough tier (120 s budget, at least two solvers must agree) of every claimed check against a scratch worktree of
# /repo's HEAD (no evidence is written, /repo is not touched); one line per property.
cd /verif && . ./env.sh
wt=/tmp/thorough_wt_$$
git -C /repo worktree add --detach -q $wt HEAD || exit 2
trap 'git -C /repo worktree remove --force '$wt EXIT
export GOWP_REPO=$wt GOWP_OUT=/tmp/thorough_out_$$ GOWP_NOLOCK=1
rc=0
for p in $(python3 -c "import json; print(' '.join(c['property_id'] for c in json.load(open('MANIFEST.json'))['checks']))"); do
  out=$(bin/gowp check --property $p --tier thorough 2>&1); code=$?
  echo "$p exit=$code $(echo "$out" | grep '^property' | tail -1)"
  [ $code -ne 0 ] && { rc=1; echo "$out" | grep "VIOLATION\|ENGINE\|gowp:" | head -5; }
done
rm -rf /tmp/thorough_out_$$
exit $rc
