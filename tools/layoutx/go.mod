module layoutx

go 1.25
