// layoutx prints, for every Encode/Decode method of a package directory, the calls of its body in source order
// (function literals excluded) with their per-callee ordinal - the raw material for the per-message layout
// contracts (tools/layout_gen.py joins it with the BOLT layout table).
package main

import (
	"bytes"
	"encoding/json"
	"fmt"
	"go/ast"
	"go/parser"
	"go/printer"
	"go/token"
	"os"
	"sort"
	"strings"
)

type Call struct {
	Name string   `json:"name"`
	Ord  int      `json:"ord"`
	Args []string `json:"args"`
	Line int      `json:"line"`
}
type Method struct {
	Recv     string `json:"recv"`
	RecvName string `json:"recv_name"`
	Ptr      bool   `json:"ptr"`
	Name     string `json:"name"`
	File     string `json:"file"`
	Calls    []Call `json:"calls"`
}

func main() {
	dir := os.Args[1]
	want := map[string]bool{}
	for _, n := range os.Args[2:] {
		want[n] = true
	}
	fset := token.NewFileSet()
	pkgs, err := parser.ParseDir(fset, dir, func(fi os.FileInfo) bool { return !strings.HasSuffix(fi.Name(), "_test.go") }, 0)
	if err != nil {
		panic(err)
	}
	var out []Method
	for _, p := range pkgs {
		var files []string
		for f := range p.Files {
			files = append(files, f)
		}
		sort.Strings(files)
		for _, fn := range files {
			for _, d := range p.Files[fn].Decls {
				fd, ok := d.(*ast.FuncDecl)
				if !ok || fd.Recv == nil || fd.Body == nil || !want[fd.Name.Name] {
					continue
				}
				m := Method{Name: fd.Name.Name, File: fn}
				rt := fd.Recv.List[0].Type
				if st, ok := rt.(*ast.StarExpr); ok {
					m.Ptr = true
					rt = st.X
				}
				if id, ok := rt.(*ast.Ident); ok {
					m.Recv = id.Name
				} else {
					continue
				}
				if len(fd.Recv.List[0].Names) > 0 {
					m.RecvName = fd.Recv.List[0].Names[0].Name
				}
				ord := map[string]int{}
				var calls []*ast.CallExpr
				ast.Inspect(fd.Body, func(n ast.Node) bool {
					switch x := n.(type) {
					case *ast.FuncLit:
						return false
					case *ast.CallExpr:
						calls = append(calls, x)
					}
					return true
				})
				sort.SliceStable(calls, func(i, j int) bool { return calls[i].Lparen < calls[j].Lparen })
				for _, c := range calls {
					var name string
					switch f := c.Fun.(type) {
					case *ast.Ident:
						name = f.Name
					case *ast.SelectorExpr:
						name = f.Sel.Name
					default:
						continue
					}
					var args []string
					for _, a := range c.Args {
						var b bytes.Buffer
						printer.Fprint(&b, fset, a)
						args = append(args, strings.Join(strings.Fields(b.String()), " "))
					}
					m.Calls = append(m.Calls, Call{Name: name, Ord: ord[name], Args: args, Line: fset.Position(c.Pos()).Line})
					ord[name]++
				}
				out = append(out, m)
			}
		}
	}
	enc := json.NewEncoder(os.Stdout)
	enc.SetIndent("", " ")
	if err := enc.Encode(out); err != nil {
		fmt.Fprintln(os.Stderr, err)
	}
}
