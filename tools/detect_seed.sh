#!/bin/bash
# usage: detect_seed.sh <seed-dir> <property>
# Applies the seed to /repo, runs the property's quick check, prints the failed obligations (one per line,
# derived from the VIOLATION replay paths) and reverts the patch straight afterwards.
seed=$1; prop=$2
cd /verif && . ./env.sh
git -C /repo apply "$seed/patch.diff" || { echo "APPLY-FAILED"; exit 2; }
trap 'git -C /repo apply -R "$seed/patch.diff"' EXIT
./check.sh "$prop" quick 2>&1 | grep '^VIOLATION' | sed -E 's|.*replay=[^ ]*/([^/ ]+)\.json.*|\1|' | sed -E 's/^__//'
