#!/usr/bin/env python3
"""Regenerates /verif/MANIFEST.json from the table below (single source of truth)."""
import json, subprocess, os

TECH = "contracts (//@ requires/ensures/site/invariant in zz_verif_contracts.go) + weakest-precondition VCs over go/ssa of the real code + SMT (z3 4.8.12 / z3 5.1.0 / cvc5 1.0 raced)"

CLAIMED = {
 "C09": dict(
   text="Deductive proof, per function, for all inputs in the stated domain: every obligation generated from the go/ssa form of CheckHtlcForward, canSendHtlc, validateHtlcAmount, CheckHtlcTransit, ExpectedFee, InboundFee.CalcFee and both ComputeFee is discharged by an SMT solver. accept => every policy rule (postconditions over unbounded integers), reject => the named rule is violated (site obligations at every failure constructor, plus coverage of all non-nil returns), and every machine-integer operation is proved wrap-free so the decision agrees with exact arithmetic.",
   note="Domain (A-dom): amounts <= 2^40 msat, base fee < 2^32, outbound rate <= 10^6 ppm, |inbound rate| <= 10^6 ppm (CalcFee itself: all rates for amt <= 922337203685), height+delta sums < 2^32, no AuxTrafficShaper configured. Trusted: go/ssa, the gowp VC generator, the SMT solvers; l.Bandwidth() and failure-message construction are opaque (A-frame); sequential semantics (A-seq). That the switch only forwards over a link whose check returned nil is not part of this check.",
   ref="DESIGN.md §4 C09"),
 "C17": dict(
   text="Deductive proof per function: CoopCloseBalance is proved equal to the exact-integer statement of the property (each side's balance, dangling commit fee and 2x330 sat anchors credited to the opener, closing fee charged to the paying party, error iff a result would be negative, sum conserved); CreateCooperativeCloseTx writes an output value only for a party whose balance is at least its own dust limit and the value is that balance; CreateCloseProposal and CompleteCooperativeClose hand exactly the local commitment's balances, fee, dust limits and scripts to those functions (site obligations); the legacy negotiation step functions (feeInAcceptableRange, ratchetFee, calcCompromiseFee) equal their arithmetic specs and move strictly toward the peer's offer.",
   note="Domain: balances/fees in [0, 21e14] sat. Not decided: byte-identity of both sides' transactions, signature validity, musig2, extra-output closures (loops are havocked, the site obligations still hold), termination of the negotiation over many rounds (only the per-round monotone-approach facts are proved). Trusted: go/ssa, gowp, SMT solvers; A-frame/A-seq.",
   ref="DESIGN.md §4 C17"),
 "C16": dict(
   text="Deductive proof per function: the three status predicates (initializable / removable / updatable) equal their documented tables; decidePaymentStatus equals the five-row truth table of the statement for every attempt slice (loop invariant over the processed prefix, range quantifiers as recursive functions) and never reports Failed when a settled attempt exists; Registrable is exactly 'Initiated, or InFlight with no settled attempt and not failed'; verifyAttempt returns nil only if sent + attempt amount <= payment amount in exact integers; setState stores the decided status, Value - sent, and the settled/failed flags; and in BOTH back ends (closures of KVStore.InitPayment / RegisterAttempt / updateHtlcKey and SQLStore.InitPayment / RegisterAttempt / SettleAttempt / FailAttempt) every write is dominated by the corresponding verified guard applied to the value just fetched (site obligations).",
   note="A-dom: sum of recorded attempt amounts and a route's receiver amount are <= 2^62 msat (trusted contracts on SentAmt and route.ReceiverAmt). A-glob: sentinel error variables are distinct, non-nil, never reassigned. Not decided: interleavings of concurrent DB transactions (each closure is verified as sequential code), answer-for-answer equality of the two back ends over histories, deletion paths, the DB layers themselves (kvdb / sqlc are opaque).",
   ref="DESIGN.md §4 C16"),
 "C18": dict(
   text="Deductive proof per function of the linear fee function and the budget guards: feeRateAtPosition equals a spec function frAt (capped at the ending rate, equal to it from position >= width), the lemmas frAtMono / frAtBounds prove that frAt is non-decreasing in the position and stays within [start, end]; increaseFeeRate / Increment / IncreaseFeeRate preserve the object invariant wfAll and never lower currentFeeRate, fail exactly at position >= width, and IncreaseFeeRate(confTarget <= 1) leaves FeeRate() == endingFeeRate (ceiling reached one block before the deadline); NewLinearFeeFunction establishes the invariant (start <= end, after the fix of finding F6); MaxFeeRateAllowed returns min(MaxFeeRate, budget-over-size); Estimate is at least the relay floor unless capped by the maximum; createAndCheckTx returns a transaction only if its fee <= budget and builds it at FeeRate(); initializeFeeFunction hands exactly those values on.",
   note="A-fp: float64 conversion/division and btcutil.Amount.MulF64 are uninterpreted; the axioms mulf64_nonneg / mulf64_mono / mulf64_frac / mulf64_scale / frac_mono (IEEE-754 monotone rounding, error below one unit under 2^50) are assumed and listed in the evidence. A-dom: fee rates <= 2^40 sat/kw, budget >= 0, heights in [0, 2^30]. A-ext: chainfee.Estimator results are non-negative. Not decided: that the sweep tx spends all requested inputs and creates no dust output (tx assembly over input.Input interfaces is opaque), estimator behaviour, the block-driven loop that calls the fee function.",
   ref="DESIGN.md §4 C18"),
 "C12": dict(
   text="Deductive proof per function of the arbitrator's classification code: shouldGoOnChain returns true only at or after expiry minus the broadcast delta, exactly so for incoming HTLCs, for forwarded ones and after the grace period, and false before; in checkCommitChainActions the go-to-chain test for a received HTLC is evaluated only when its preimage is available, with the right delta and height, and every map insertion puts an HTLC under the action that its dust flag / go-to-chain verdict demands (FailDust, OutgoingWatch, Timeout, IncomingDustFinal, IncomingWatch and nothing else); checkRemoteDanglingActions and checkRemoteDiffActions fail back an HTLC only if it is absent from the confirmed commitment, its preimage is unknown and (before confirmation) it is about to expire, dust and non-dust separated; constructChainActions dispatches local / remote / remote-pending to the matching checker with the matching flag; prepContractResolutions creates the resolver kind that the action names, for the HTLC and resolution looked up at that HTLC's outpoint.",
   note="Site obligations inside loops are checked for an arbitrary iteration (loops are havocked, the facts used are local to the iteration). Not decided: that every HTLC is classified exactly once per pass (needs a ghost count over the loops), the timing of the block-driven state machine, resolver behaviour, 'exactly once' across the three close triggers. shouldGoOnChain's postconditions hold under RefundTimeout >= delta (candidate finding F3: uint32 underflow below that, unreachable at real block heights).",
   ref="DESIGN.md §4 C12"),
 "C20": dict(
   text="Deductive proof per function (K2 guard contracts) of the validation chain for gossip: validateChannelAnn1 returns nil only if four Verify calls returned true, each on the signature field, key field and double-hash digest of THIS announcement that the property names (bitcoin1/2, node1/2); ValidateChannelAnn / ValidateChannelUpdateAnn / VerifyChannelUpdateSignature / verifyChannelUpdate1Signature dispatch to and return the verdict of those checks; validateChannelUpdate1Fields enforces max_htlc != 0, >= min_htlc and <= capacity in msat; in handleChanAnnouncement the graph insertion (AddEdge) and the relay append are dominated by a nil verdict of ValidateChannelAnn for remote messages and of validateFundingTransaction unless AssumeChannelValid/alias; validateFundingTransaction succeeds only if the funding tx was fetched, the script built from this announcement's bitcoin keys matched an output and the UTXO lookup succeeded; in handleChanUpdate, UpdateEdge and the relay are dominated by a non-stale verdict, a nil verdict of ValidateChannelUpdateAnn called with the node key selected by the direction bit of this update from the stored channel; in handleNodeAnnouncement/addNode, AddNode is dominated by non-staleness and ValidateNodeAnn == nil and relay by IsPublicNode; IsStaleEdgePolicy / assertNodeAnnFreshness return 'fresh' only if the stored timestamp of that direction / node is strictly before the new one (and apply the zombie rule first).",
   note="A-ext: Signature.Verify, ParsePubKey, DoubleHashB, DataToSign, the chain backend (FetchFundingTxWrapper, chanvalidate.Validate, GetUtxo) and the graph DB are opaque: the contracts pin which values flow into and out of them, not what they compute. Not decided: real signature semantics, ValidateNodeAnn's body and ChannelAnnouncement2/ChannelUpdate2 paths (only dispatch), orderings across calls (premature-message replay), rate limits, the KV/SQL graph stores.",
   ref="DESIGN.md §4 C20"),
 "C15": dict(
   text="Deductive proof per function of the invoice update logic: at every producer of a settle resolution in updateMpp / updateLegacy / resolveReplayedHtlc the full conjunction of the statement holds (invoice open, payment address equal to the invoice's, a non-zero declared total >= invoice value, every accepted HTLC of the set declares that same total (loop step relation), set sum >= total, expiry >= height + both CLTV deltas, not a hold invoice; for replays the stored preimage matches the hash); every accept resolution satisfies the same address / total / CLTV conditions; the invoice and HTLC transition functions (getUpdatedInvoiceState, getUpdatedHtlcState, canCancelSingleHtlc) only move forward (no exit from settled / canceled, a settled HTLC is never canceled, a hold invoice settles only with a preimage hashing to the payment hash); settleHodlInvoice / addHTLCs / cancelInvoice / cancelHTLCs change memory only after the updater accepted the change, with the verdict of those functions, and the recorded amount paid is the sum over exactly the HTLCs that were settled (loop step relations).",
   note="A-dom: heights in [0, 2^30], CLTV deltas in [0, 2^20], invoice state is one of the four declared values; sums of amounts use Go's uint64 wrap-around explicitly. Opaque: InvoiceUpdater (DB), Preimage.Matches / Hash, bytes.Equal, AMP reconstruction (reconstructAMPPreimages is only required to report no failure), HTLCSet. Not decided: registry-level timing (hold invoice timeouts, concurrent links), that stored invoices satisfy hash = H(preimage), SQL/KV store equivalence, replay determinism beyond the verdict table of resolveReplayedHtlc.",
   ref="DESIGN.md §4 C15"),
 "C06": dict(
   text="Deductive proof per function. shachain: getBit, getPrefix (with a bit-vector lemma about Go's & operator), countTrailingZeros (loop invariant), newIndex equal their arithmetic specs; deriveBitTransformations succeeds exactly when the source index is the target with its low bits cleared and only emits positions whose bit is set; RevocationStore.AddNextEntry: every bucket below the new element's bucket is checked against the derived value (loop step relation: derive succeeded and isEqual returned true, and the loop covers all of them), the element is stored at bucket ctz(index), lenBuckets becomes max(old, b+1), index decreases by one, every other bucket is unchanged (quantified frame postcondition), nothing changes on error; LookUp derives from bucket i < lenBuckets with the requested index; no out-of-range access (nopanic) except the listed finding F2. lnwallet: RevokeCurrentCommitment returns a non-nil revoke_and_ack only if UpdateCommitment returned nil for the commitment at height+1 and the message is generateRevocation(old height); generateRevocation takes the secret at AtIndex(height) and the next point from AtIndex(height+2); ReceiveRevocation inserts the received secret into the store and compares the derived point with the stored one before any state is changed, and advances memory only after AdvanceCommitChainTail returned nil.",
   note="Known finding F2 (store.index == 0 -> bucket 48 out of range) is reported as KNOWN-FINDING. Assumed: element.derive's frame (modifies-assumed nothing: it writes only local buffers and a fresh element), sha256/chainhash opaque; the hash-chain content of derive (flip bit, hash) is not connected to a spec function, so 'reproduces each secret exactly' is decided only at the level of the store algorithm's control and index arithmetic, not of the 48-bit whole-store theorem; Encode/NewRevocationStoreFromBytes round trip not covered; ProcessChanSyncMsg retransmission belongs to C03.",
   ref="DESIGN.md §4 C06"),
 "C02": dict(
   text="Deductive proof (K2 guard contracts) of the write-before-release ordering in the channel state machine: SignNextCommitment extends the in-memory remote chain and returns signatures only after AppendRemoteCommitChain returned nil for the CommitDiff built from exactly the view and signatures it returns; RevokeCurrentCommitment advances the local tail first, persists that commitment with UpdateCommitment, and returns the revoke_and_ack (for the old height) only if the write returned nil; ReceiveRevocation advances the in-memory remote tail and compacts the logs only after AdvanceCommitChainTail returned nil; ReceiveNewCommitment appends the new local commitment only after the commitment signature (Verify under the remote multisig key over the sighash of this commitment tx, or the musig2 partial signature) and every HTLC signature (loop invariant + step relation) verified.",
   note="Decides the clause 'the commitment it would broadcast after reload is never one whose revocation secret it has already released' and the persist-before-release mechanism. Not decided: that the reloaded state EQUALS the pre-crash state (serialisation round trip of channeldb/chanstate codecs and the restore functions over all crash points), forwarding packages, that the reloaded channel can continue operating. Goroutines / channels / select in SignNextCommitment and the sig pool are treated per A-seq (results of channel receives are unconstrained).",
   ref="DESIGN.md §4 C02"),
 "C08": dict(
   text="Deductive proof (K2 guard contracts) at the channel API, which is where every settle or fail of an HTLC enters the update log: in SettleHTLC / ReceiveHTLCSettle the appended Settle entry is dominated by: the HTLC exists in the right log, it has no earlier modification, and its payment hash equals sha256 of the supplied preimage (sha256 as an opaque function of the preimage bytes); the entry carries that HTLC's amount and index and the preimage; FailHTLC / MalformedFailHTLC / ReceiveFailHTLC append a fail entry only for an existing, unmodified HTLC with its amount and hash; every success path marks the HTLC modified after appending (called() ghost predicates), so a second settle-or-fail of the same HTLC is refused.",
   note="Decides 'the incoming HTLC is settled only with the preimage' and 'at most one settle-or-fail per HTLC' at the update-log level. Not decided: fail-back only after the outgoing HTLC is irrevocably removed, balance conservation at quiescence, dangling circuits - properties of link / switch / mailbox message flows under restarts and drops (histories).",
   ref="DESIGN.md §4 C08"),
 "C11": dict(
   text="Deductive proof per function of the transport's counter, rotation and flush mechanics: Encrypt / Decrypt call the AEAD with the nonce buffer whose bytes [4:12] were just set to LE64(old nonce) under the old cipher, then the nonce is old+1, or at 1000 rotateKey runs (deferred closure encoded inline; object invariant nonce < 1000); rotateKey derives from (old key, salt), reads the new salt first and the next key second and re-initialises with nonce 0; InitializeKey(WithSalt) set key / salt / nonce 0; split hands the first HKDF output to the initiator's send cipher and the second to its receive cipher, the responder the reverse, all salted with the chaining key; WriteMessage rejects > 65535 bytes and an unflushed previous message, encrypts BE16(len) as header first and the body second with the send cipher; Flush, for every split point the writer may choose (0 <= n <= len), keeps exactly the unsent suffix of header and body, never writes the body before the header went out without error, reports exactly the payload bytes written (MAC accounting formula) and releases buffers only when both are empty; ReadHeader returns BE16(plain)+16 after a full read and successful decrypt; each Recv act continues only with version byte 0 and a successful DecryptAndHash, RecvActThree splits only after both.",
   note="A-ext: AEAD Seal/Open, HKDF, binary.*Endian, io.ReadFull and io.Writer.Write (0 <= n <= len) are opaque; the contracts pin which buffers and values flow into them. With A-crypto (HKDF outputs never cycle) the step relation is what 'no (key, nonce) pair is used twice' rests on. Not decided: that the handshake completes exactly for the right static key, rejection of every ciphertext modification (AEAD/ECDH semantics), ordering across the network, mixKey/mixHash digest chain.",
   ref="DESIGN.md §4 C11"),
}

NOT_APPLICABLE = {
 "C05": "validity of spends under Bitcoin script rules is the verdict of btcd's txscript interpreter plus signature semantics; no contract on lnd functions expresses or decides it (DESIGN.md §5)",
 "C14": "a property of histories of block connect/disconnect/registration events against the active chain; needs a ghost chain and client model, i.e. a model rather than contracts on one call or one data structure (DESIGN.md §5)",
}

PENDING_REASON = "not claimed yet: contracts for this property are not enrolled in this revision (see DESIGN.md §4 for the plan); nothing is asserted about it"

def main():
    root = os.path.dirname(os.path.dirname(os.path.abspath(__file__)))
    props = [json.loads(l)["id"] for l in open(os.path.join(root, "properties.jsonl"))]
    try:
        commits = subprocess.check_output(["git", "-C", "/repo", "log", "--format=%H %s"], text=True).splitlines()
    except Exception:
        commits = []
    hook_commits = [c.split()[0] for c in commits if c.split(" ", 1)[1].startswith("verif:")]
    checks = []
    for pid in props:
        if pid not in CLAIMED:
            continue
        c = CLAIMED[pid]
        checks.append({
            "property_id": pid,
            "quick_cmd": f"./check.sh {pid} quick",
            "thorough_cmd": f"./check.sh {pid} thorough",
            "evidence_file": f"/verif/evidence/{pid}.json",
            "replay_cmd_template": "./replay.sh {path}",
            "engine": "gowp",
            "level_claimed": {"category": "proof", "text": c["text"], "design_ref": c["ref"]},
            "level_note": c["note"],
            "technique": TECH,
        })
    na = []
    for pid in props:
        if pid in CLAIMED:
            continue
        na.append({"property_id": pid, "reason": NOT_APPLICABLE.get(pid, PENDING_REASON)})
    m = {
        "version": 1,
        "setup_cmd": "./setup.sh",
        "hooks": {
            "guard": "verif",
            "enable": "-tags verif (comment-only contract files zz_verif_contracts.go; no executable code is added)",
            "baseline_off_cmd": json.load(open("/root/.vp/BASELINE.json"))["cmd"],
            "source_commits": hook_commits,
            "add_only": True,
        },
        "engines": [{
            "name": "gowp",
            "path": "/verif/engine",
            "serves_properties": sorted(CLAIMED),
            "kind_free_text": "contract-based deductive verifier for Go written for this task: passive weakest-precondition encoding of go/ssa function bodies against //@ contracts, modular calls, loop invariants, SMT back ends raced",
        }],
        "checks": checks,
        "not_applicable": na,
        "notes": "All checks rebuild their obligations from /repo's working tree on every run (go/packages + go/ssa, build tag verif). exit 0: all enrolled obligations discharged; exit 1: VIOLATION line(s); exit 2: engine error (tree does not compile, contract drift).",
    }
    json.dump(m, open(os.path.join(root, "MANIFEST.json"), "w"), indent=1)
    print("MANIFEST.json written:", len(checks), "checks,", len(na), "not applicable")

if __name__ == "__main__":
    main()
