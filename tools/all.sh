#!/bin/sh
# run every claimed check once (quick tier); print one line each; exit non-zero if any alarm
cd "$(dirname "$0")/.."
rc=0
for p in $(python3 -c "import json; print(' '.join(c['property_id'] for c in json.load(open('MANIFEST.json'))['checks']))"); do
  out=$(./check.sh $p quick 2>&1); code=$?
  echo "$p exit=$code $(echo "$out" | grep '^property' | tail -1)"
  [ $code -ne 0 ] && { rc=1; echo "$out" | grep "VIOLATION\|ENGINE\|gowp:" | head -5; }
done
exit $rc
