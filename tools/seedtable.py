#!/usr/bin/env python3
"""Rewrites the table of DESIGN.md §8 from seeded/*/meta.json."""
import json, glob, os, re
first_missed = {'C02-1','C02-2','C02-3','C08-1','C08-2','C08-3','C10-1','C12-1','C13-2','C16-2','C18-3','C20-1','C16-1'}
after = {'C04-1','C04-2','C04-3','C03-3'}
extra = json.load(open('/verif/seeded/outcomes.json')) if os.path.exists('/verif/seeded/outcomes.json') else {}
rows = []
for d in sorted(glob.glob('/verif/seeded/*')):
    if not os.path.isdir(d):
        continue
    m = json.load(open(d + '/meta.json'))
    name = os.path.basename(d)
    patch = open(d + '/patch.diff').read()
    files = sorted(set(l[6:] for l in patch.split('\n') if l.startswith('+++ b/')))
    ob = (m.get('failed_obligations') or [''])[0]
    ob = ob.split(' - ')[0].split(' (')[0]
    note = 'caught'
    if name in first_missed:
        note = 'missed by the first version, caught after strengthening'
    if name in after:
        note = 'contract written after the change was delivered'
    if name in extra:
        note = extra[name]
    if not m.get('detected_by_check'):
        note = 'NOT detected: ' + extra.get(name, '')
    rows.append(f"| {name} | {', '.join(files)} | `{ob[:95]}` | {note} |")
p = '/verif/DESIGN.md'
s = open(p).read()
head = '| seed | file | first failing obligation | outcome |\n|------|------|--------------------------|---------|\n'
i = s.index(head) + len(head)
j = s.index('\n\n', i)
s = s[:i] + '\n'.join(rows) + s[j:]
open(p, 'w').write(s)
print(len(rows), 'rows')
