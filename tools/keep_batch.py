#!/usr/bin/env python3
"""keep_batch.py <confirm-output>... : keeps every fully confirmed seed of the given confirm_seed.sh outputs (obligations from /tmp/det/<seed>.txt written by detect_seed.sh)."""
import json,subprocess,sys,os
conf={}
for f in sys.argv[1:]:
    for l in open(f):
        if l.startswith('{'):
            d=json.loads(l)
            if all(v for k,v in d.items() if k!='seed'): conf[d['seed']]=d
            else: print('NOT CONFIRMED', d)
for s,c in conf.items():
    if os.path.exists(f'/verif/seeded/{s}/meta.json'): continue
    obl=[x.strip() for x in open(f'/tmp/det/{s}.txt') if x.strip()]
    assert obl, s
    subprocess.check_call(['python3','/verif/tools/keep_seed.py',f'/tmp/seedstore/{s}',s.split('-')[0],json.dumps(c)]+obl)
