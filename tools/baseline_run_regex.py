#!/usr/bin/env python3
"""Print a -run regex selecting the top-level tests of a package that are in the stable baseline."""
import json, sys
pkg = sys.argv[1]  # e.g. github.com/lightningnetwork/lnd/invoices
b = json.load(open('/root/.vp/BASELINE.json'))
names = sorted({x.split('::',1)[1].split('/')[0] for x in b['stable_pass'] if x.startswith(pkg + '::')})
print('^(' + '|'.join(names) + ')$')
