#!/bin/bash
# usage: confirm_batch.sh <worktree> <seed-id>...   : runs confirm_seed.sh for seeds under /tmp/seedstore, reading the demo package
# and -run regex from the seed's notes.md (first "go test ... -run X ./pkg/" line); extra go test flags via EXTRA.
wt=$1; shift
for s in "$@"; do
  d=/tmp/seedstore/$s
  line=$(grep -o 'go test[^`]*-run[^`]*' $d/notes.md | grep -v 'existing' | head -1)
  run=$(echo "$line" | sed -E "s/.*-run[ =]+['\"]?([^ '\"]+)['\"]?.*/\1/")
  pkg=$(echo "$line" | grep -o '\./[A-Za-z0-9_/]*' | tail -1 | sed 's|^\./||; s|/$||')
  tags=$(echo "$line" | grep -o '\-tags[ =][A-Za-z0-9_,]*' | head -1)
  echo "# $s pkg=$pkg run=$run tags=$tags" >&2
  /verif/tools/confirm_seed.sh $wt $d $pkg "$run" $tags $EXTRA
done
