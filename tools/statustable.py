#!/usr/bin/env python3
"""Rewrites the fns / obligations columns of the status table in DESIGN.md §0 and the totals sentence from evidence/*.json."""
import json, re, glob, os
root = os.path.dirname(os.path.dirname(os.path.abspath(__file__)))
p = os.path.join(root, 'DESIGN.md'); s = open(p).read()
tot_o = 0; fns = set()
for f in sorted(glob.glob(os.path.join(root, 'evidence', 'C*.json'))):
    ev = json.load(open(f)); pid = ev['property_id']; cov = ev['coverage']
    n = len(cov.get('functions_under_contract') or []); o = cov['obligations']
    tot_o += o; fns.update(cov.get('functions_under_contract') or [])
    s, k = re.subn(r'(\| %s \| [^|]* \| )\d+( \| )\d+( \|)' % pid, r'\g<1>%d\g<2>%d\g<3>' % (n, o), s)
    assert k == 1, pid
s = re.sub(r'≈ [\d ]+ obligations over ≈ \d+ functions in total', '≈ %s obligations over ≈ %d functions in total' % (format(tot_o, ',').replace(',', ' '), len(fns)), s)
open(p, 'w').write(s)
print('status table:', tot_o, 'obligations,', len(fns), 'functions')
