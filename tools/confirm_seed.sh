#!/bin/bash
# usage: confirm_seed.sh <worktree> <seed-dir> <pkg-dir> <demo-run-regex> [extra go test flags]
# In a scratch worktree: checks that the patch applies, the package builds, its existing tests
# (those in the stable baseline) pass with the patch, the demo fails with the patch and passes without it. Prints a JSON line.
export PATH=/root/go/pkg/mod/golang.org/toolchain@v0.0.1-go1.25.13.linux-amd64/bin:$PATH GOTOOLCHAIN=local GOFLAGS=-mod=mod GOPROXY=off GOSUMDB=off GOMAXPROCS=6
wt=$1; seed=$2; pkg=$3; run=$4; shift 4; extra="$@"
cd "$wt" || exit 2
git checkout -q -- . ; rm -f "$pkg"/zz_demo_seed_test.go
res() { echo "{\"seed\":\"$(basename $seed)\",\"applies\":$1,\"builds\":$2,\"existing_tests_pass_with_patch\":$3,\"demo_fails_with_patch\":$4,\"demo_passes_without_patch\":$5}"; }
git apply "$seed/patch.diff" || { res false false false false false; exit 1; }
go build ./$pkg/ >/dev/null 2>&1 && b=true || b=false
modpath=$(cd ./$pkg && go list -f '{{.ImportPath}}' . 2>/dev/null)
runre=$(python3 /verif/tools/baseline_run_regex.py "$modpath")
go test -p 4 -vet=off -count=1 $extra -run "$runre" ./$pkg/ >/tmp/confirm_$$.log 2>&1 && t=true || t=false
cp "$seed/demo_test.go" "$pkg/zz_demo_seed_test.go"
go test -vet=off -count=1 $extra -run "$run" ./$pkg/ >/tmp/confirm_demo1_$$.log 2>&1 && d1=false || d1=true
git apply -R "$seed/patch.diff"
go test -vet=off -count=1 $extra -run "$run" ./$pkg/ >/tmp/confirm_demo2_$$.log 2>&1 && d2=true || d2=false
rm -f "$pkg"/zz_demo_seed_test.go
git checkout -q -- .
res true $b $t $d1 $d2
[ $t = false ] && tail -5 /tmp/confirm_$$.log
rm -f /tmp/confirm_$$.log /tmp/confirm_demo1_$$.log /tmp/confirm_demo2_$$.log
