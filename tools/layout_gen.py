#!/usr/bin/env python3
"""layout_gen.py [--check] : per-message wire layout contracts for lnwire.

Joins tools/bolt_layouts.json (field order and writer per message, written from the BOLT text) with the calls that
Encode / Decode of the CURRENT /repo/lnwire make (bin/layoutx), checks that both follow the table, and rewrites the
generated region of /repo/lnwire/zz_verif_contracts.go with site contracts that pin, for every row,
  Encode: the k-th call of the writer the BOLT type dictates writes exactly that field, after the previous row's write;
  Decode: the ReadElements / ReadElement calls receive exactly those fields' storage, in that order.
With --check nothing is written; a mismatch between table and code is printed and the exit status is 1.
The contracts are proved by gowp like any other (the generator only saves typing; what it emits is in the contract file)."""
import json, re, subprocess, sys, os
REPO = os.environ.get('GOWP_REPO', '/repo')
CF = f'{REPO}/lnwire/zz_verif_contracts.go'
BEGIN = '//@ // ==== BEGIN generated per-message layout contracts (tools/layout_gen.py; table: /verif/tools/bolt_layouts.json) ===='
END = '//@ // ==== END generated per-message layout contracts ===='

def norm(arg, recv):
    a = arg.strip()
    if a.startswith('&'): a = a[1:]
    if a.endswith('[:]'): a = a[:-3]
    m = re.fullmatch(r'u?int\d*\((.*)\)', a)
    if m: a = m.group(1)
    if a.startswith(recv + '.'): return a[len(recv) + 1:]
    return None  # not a receiver field

def enc_form(k, arg, recv):
    a = arg.strip()
    if norm(a, recv) is None: return None
    if a.endswith('[:]'): return f'arg({k}) == sliceof({a[:-3]})'
    if a.startswith('&'): return f'arg({k}) == addr({a[1:]})'
    if re.fullmatch(r'[A-Za-z_][\w.]*', a): return f'arg({k}) == {a}'
    return None

def dec_form(expr, arg, recv):
    a = arg.strip()
    if norm(a, recv) is None: return None
    if a.endswith('[:]'): return f'dyndata({expr}) == boxof(sliceof({a[:-3]}))'
    if a.startswith('&'): return f'dyndata({expr}) == addr({a[1:]})'
    if re.fullmatch(r'[A-Za-z_][\w.]*', a): return f'dyndata({expr}) == boxof({a})'
    return None

def main():
    check = '--check' in sys.argv
    table = json.load(open('/verif/tools/bolt_layouts.json'))
    raw = json.loads(subprocess.check_output(['/verif/bin/layoutx', f'{REPO}/lnwire', 'Encode', 'Decode', 'MsgType', 'Code']))
    meth = {(m['recv'], m['name']): m for m in raw}
    src = open(CF).read()
    if BEGIN in src:
        head = src[:src.index(BEGIN)]
        tail = src[src.index(END) + len(END):]
    else:
        head, tail = src.rstrip('\n') + '\n//@\n', '\n'
    existing = set(re.findall(r'^//@ func \((\w+) \*?(\w+)\) (\w+)\s*$', head + tail, re.M))
    existing = {(r, n) for _, r, n in existing}
    out, errors, nsites = [BEGIN, '//@ // each row of the table is one obligation per direction; a message whose code stops following its BOLT layout',
                            '//@ // (a field moved, dropped, written with the writer of another width, or read into another field) fails the row', '//@'], [], 0
    for msg, spec in table.items():
        if msg.startswith('_'): continue
        rows = [(r[0], r[1], (r[2] if len(r) > 2 else {})) for r in spec['rows']]
        for direction in ('Encode', 'Decode'):
            m = meth.get((msg, direction))
            if m is None:
                errors.append(f'{msg}.{direction}: method not found'); continue
            recv, calls = m['recv_name'], m['calls'] or []
            star = '*' if m['ptr'] else ''
            lines = []
            if direction == 'Encode':
                pos, prev = 0, None
                for i, (field, writer, opt) in enumerate(rows):
                    k = opt.get('enc_arg', 1)
                    found = None
                    for j in range(pos, len(calls)):
                        c = calls[j]
                        if c['name'] != writer or len(c['args']) <= k: continue
                        n = norm(c['args'][k], recv)
                        if opt.get('noarg') or n == field or (opt.get('tail') and n is None): found = j; break
                        if n is not None and n != field: break  # the next call of this writer writes another field
                    if found is None:
                        errors.append(f'{msg}.Encode: row {i} ({field} via {writer}) is not the next {writer} call in source order'); break
                    c = calls[found]; pos = found + 1
                    conds = []
                    if not opt.get('noarg'):
                        f = enc_form(k, c['args'][k], recv)
                        if f: conds.append(f)
                    if prev: conds.append(f'called({prev[0]}, {prev[1]})')
                    if conds:
                        lines.append(f"//@   site call {writer} nth {c['ord']} as layout-enc-{i}-{(field or 'len').replace('.', '_')}: assert {' && '.join(conds)}")
                    if not opt.get('opt'): prev = (writer, c['ord'])
                # success means the work was done: the last mandatory field (and, through the chain of called() above, every
                # mandatory field before it) has been written when Encode reports nil
                if prev and not spec.get('no_success_clause'):
                    lines.append(f"//@   ensures result == nil ==> called({prev[0]}, {prev[1]})")
                # a writer call on a receiver field that no row accounts for
                used = {(r[1]) for r in rows}
                for c in calls:
                    if c['name'].startswith('Write') and len(c['args']) > 1 and norm(c['args'][1], recv) is not None:
                        if not any(norm(c['args'][r[2].get('enc_arg', 1)] if len(c['args']) > r[2].get('enc_arg', 1) else '', recv) == r[0] and c['name'] == r[1] for r in rows):
                            errors.append(f"{msg}.Encode: {c['name']}({c['args'][1]}) at line {c['line']} is not in the layout table")
            else:
                reads = [c for c in calls if c['name'] in ('ReadElements', 'ReadElement')]
                flat = [(ci, ai, a) for ci, c in enumerate(reads) for ai, a in enumerate(c['args'][1:])]
                p, match = 0, {}
                ok = True
                for i, (field, writer, opt) in enumerate(rows):
                    if opt.get('dec_skip'): continue
                    found = None
                    for q in range(p, len(flat)):
                        n = norm(flat[q][2], recv)
                        if n == field or (opt.get('tail') and n is None and flat[q][2].startswith('&')): found = q; break
                        if n is not None: break  # a receiver field read out of order
                    if found is None:
                        if opt.get('opt') and opt.get('tail'): continue
                        errors.append(f'{msg}.Decode: row {i} ({field}) is not the next field read through ReadElement(s)'); ok = False; break
                    match[found] = (i, field, opt); p = found + 1
                if ok:
                    for q, (ci, ai, a) in enumerate(flat):
                        if q not in match and norm(a, recv) is not None:
                            errors.append(f'{msg}.Decode: {a} is read but is not in the layout table')
                    prev = None
                    for ci, c in enumerate(reads):
                        mine = [(q, flat[q]) for q in match if flat[q][0] == ci]
                        if not mine: continue
                        conds = []
                        nargs = len(c['args']) - 1
                        if c['name'] == 'ReadElements':
                            conds.append(f'len(arg(1)) == {nargs}')
                            for q, (_, ai, a) in sorted(mine):
                                f = dec_form(f'arg(1)[{ai}]', a, recv)
                                if f: conds.append(f)
                        else:
                            f = dec_form('arg(1)', mine[0][1][2], recv)
                            if f: conds.append(f)
                        if prev: conds.append(f'called({prev[0]}, {prev[1]})')
                        allopt = all(match[q][2].get('opt') for q, _ in mine)
                        lines.append(f"//@   site call {c['name']} nth {c['ord']} as layout-dec-{ci}: assert {' && '.join(conds)}")
                        if not allopt: prev = (c['name'], c['ord'])
                    if prev and not spec.get('no_success_clause'):
                        lines.append(f"//@   ensures result == nil ==> called({prev[0]}, {prev[1]})")
            if lines:
                out.append(f"//@ // {spec['bolt']}" if direction == 'Encode' else '//@')
                out.append(f'//@ func ({recv} {star}{msg}) {direction}')
                if (msg, direction) not in existing:
                    out += ['//@   props C10', '//@   loop * havoc']
                out += lines
                nsites += len(lines)
                if direction == 'Decode': out.append('//@')
    # dispatch agreement: the number a message announces is the number that makes the reader build that message type
    for tab, method, factory, param in (('_msgtypes', 'MsgType', 'makeEmptyMessage', 'msgType'), ('_failcodes', 'Code', 'makeEmptyOnionError', 'code')):
        fac = []
        out += ['//@', f"//@ // dispatch agreement ({tab[1:]}): T.{method}() == n and {factory}(n) builds a *T"]
        for t, n in table[tab].items():
            if t.startswith('_'): continue
            m = meth.get((t, method))
            if m is None:
                errors.append(f'{t}.{method}: method not found'); continue
            star = '*' if m['ptr'] else ''
            out += [f"//@ func ({m['recv_name'] or 'x'} {star}{t}) {method}", '//@   props C10', f'//@   ensures result == {n}']
            fac.append(f'//@   ensures {param} == {n} ==> result1 == nil && typeis(result0, *{t})')
            nsites += 2
        out += [f'//@ func {factory}', '//@   props C10'] + fac
    out.append(END)
    for e in errors: print('LAYOUT-MISMATCH', e)
    if check:
        sys.exit(1 if errors else 0)
    nmsg = sum(1 for k in table if not k.startswith('_'))
    open(CF, 'w').write(head + '\n'.join(out) + tail)
    print(f'{nsites} layout sites for {nmsg} messages written to {CF}; {len(errors)} mismatches')

main()
