# Environment for every gowp invocation (sourced by the scripts in /verif).
export PATH=/root/go/pkg/mod/golang.org/toolchain@v0.0.1-go1.25.13.linux-amd64/bin:$PATH
export GOTOOLCHAIN=local GOFLAGS=-mod=mod GOPROXY=off GONOSUMDB=* GONOSUMCHECK=1 GOMAXPROCS=${GOMAXPROCS:-4}
unset GOSUMDB
export GOSUMDB=off
